#!/usr/bin/env python3
"""Driver of the deterministic-simulation checks (see DESIGN.md section 8).

  check.py <property> [--tier quick|thorough] [--replay FILE] [--budget SECONDS]
                      [--workers N] [--determinism N]

Exit status: 0 = property held on everything explored (known findings are
printed as KNOWN-FINDING lines), 1 = a violation not listed in
known_findings.json was found and replayed (a line
"VIOLATION property=<id> replay=<path>" is printed), 2 = harness/build trouble
(never a VIOLATION line).
"""
import argparse
import fcntl
import hashlib
import atexit
import json
import os
import shutil
import subprocess
import sys
import time

VERIF = os.path.dirname(os.path.abspath(__file__))
HARNESS = os.path.join(VERIF, "harness")
BUILD = os.path.join(VERIF, ".build")
GO = "go1.26.8"

# property -> engine package, level, options
PROPS = {
    "C01": dict(engine="e1", level="exploration"),
    "C02": dict(engine="e1", level="exploration"),
    "C03": dict(engine="e1", level="exploration"),
    "C04": dict(engine="e1", level="exploration"),
    "C05": dict(engine="e1", level="exploration"),
    "C06": dict(engine="e1", level="exploration"),
    "C07": dict(engine="e1", level="exploration"),
    "C08": dict(engine="e1", level="fault_enumeration", rule="e4", evaluations_counter="crash.states", distinct="states"),
    "C33": dict(engine="e1", level="exploration", rule="e1-sync"),
    "C27": dict(engine="e1", level="exploration", rule="e5-access"),
    "C28": dict(engine="e1", level="exploration", rule="e5-crash",
                second=dict(engine="e1", job_property="C28c", rule="e5-conc", external=True, replay_attempts=3, must_reproduce=True, share=0.35)),
    "C10": dict(engine="e1", level="exploration", rule="e1-net"),
    "C23": dict(engine="e1", level="exploration", rule="e1-net"),
    "C22": dict(engine="e1", level="exploration", rule="e1-frame",
                second=dict(engine="e2", rule="e2-frame", external=True, replay_attempts=10, share=0.4)),
    "C24": dict(engine="e1", level="exploration", rule="e1-book"),
    "C25": dict(engine="e1", level="exploration", rule="e1-gate"),
    "C26": dict(engine="e6", level="exploration", rule="e6-pex",
                second=dict(engine="e6", job_property="C26c", rule="e6-conc", share=0.35)),
    "C17": dict(engine="e3", level="exploration", rule="e3-derive"),
    "C18": dict(engine="e3", level="exploration", rule="e3-encrypt"),
    "C19": dict(engine="e3", level="exploration", rule="e3-service",
                second=dict(engine="e1", job_property="C19c", rule="e5-conc-disk", external=True, replay_attempts=3, must_reproduce=True, share=0.3)),
    "C20": dict(engine="e3", level="fault_enumeration", rule="e3-crash", evaluations_counter="crash.states", distinct="states"),
    "C32": dict(engine="e2", level="exploration", rule="e2-pool", external=True, replay_attempts=10),
}

ENGINES = {
    "e1": dict(race=False, real=["visor", "visor/blockdb", "visor/historydb", "visor/dbutil", "bolt v1.3.1 (harness/third_party/bolt: child buckets spilled in name order instead of map order, nothing else changed)", "coin", "cipher (secp256k1, encoder)",
                                 "transaction", "params", "util/fee", "util/mathutil"],
               stub=["network and daemon (blocks and transactions are handed to visor methods directly)", "wall clock (synctest fake clock)",
                     "entropy (seeded crypto/rand.Reader and secp256k1 pool)", "fsync (tmpfs, NoSync)"]),
}

ENGINES["e3"] = dict(race=False,
                     real=["wallet.Service", "wallet (deterministic, bip44, xpub, collection)", "kvstorage", "util/file.SaveBinary/SaveJSON/LoadJSON/IsWritable",
                           "cipher/encrypt (sha256-xor, scrypt-chacha20poly1305-insecure)", "cipher/bip39, bip32, bip44"],
                     stub=["storage medium: hook H7 routes SaveBinary's writes/removes/renames through the simulated file system, which applies them to a per-run "
                           "real directory, records each primitive step, injects short-write errors and materialises crash states",
                           "entropy (seeded)", "wall clock (synctest fake clock)"])

ENGINES["e6"] = dict(race=False, real=["daemon/pex (Pex, peerlist, validateAddress, Run goroutine with the clearOld ticker, save/load of peers.json via util/file)"],
                     stub=["wall clock (synctest fake clock: minutes to weeks are jumped)", "pex random source (hook H3 seeds it)", "peer list download (disabled)"])

ENGINES["e2"] = dict(race=True,
                     real=["daemon/gnet.ConnectionPool: Run with its accept loop, processStrand, handleConnection with readLoop / sendLoop / receive loop, "
                           "Connect, Disconnect, SendMessage, BroadcastMessage, GetConnection(s), Size, SendPings, GetStaleConnections, Shutdown; "
                           "daemon/strand.Strand; gnet framing (decodeData, convertToMessage, sendMessage); all of them as real goroutines under the Go race detector"],
                     stub=["TCP: net.Listen / net.DialTimeout are replaced through hook H8 by a simulated listener and simulated connections "
                           "(blocking reads/writes, deadlines on the fake clock, bounded send buffers, close/reset)",
                           "goroutine scheduling: every goroutine parks at yield points (strand.VerifYield, every simulated network operation, every callback and "
                           "message handler, every spin of sendLoop on a closed queue) and the tape picks which one proceeds; GOMAXPROCS=1, asyncpreemptoff=1",
                           "wall clock (synctest fake clock)", "message set: one registered test message type; the daemon is not involved",
                           "residual nondeterminism: the Go runtime's choice among several ready select cases is not controlled (see DESIGN.md 4.2)"])

RULES = {
    "e5-access": "one run = one API configuration (random subset of the 7 API sets, CSRF on/off, header check on/off, credentials set or not, host whitelist or not) on a real node "
                 "(visor + bolt + daemon + wallet service + kv storage behind the real mux, middleware and handlers via hook H6, requests through httptest) and a session of "
                 "20-60 requests over the 52 routes documented in src/api/README.md x {GET, POST, PUT, DELETE, HEAD} with header variants: token in {fresh, none, expired by "
                 "advancing the fake clock 31 s, superseded by a later token, tampered, forged}, Host in {configured, localhost, foreign, whitelisted}, Origin/Referer in "
                 "{none, own, foreign, whitelisted}, credentials in {exact, none, wrong, user/password boundary shifted, user only}; whenever a stated condition fails the "
                 "status must be the refusal status of one of the failing conditions; non-trivial = at least 3 requests with a failing condition",
    "e5-conc": "one run = the same real node as in the sequential phase, with 2-4 client goroutines sending 3-8 scripted requests each (wallet balance / listing / "
               "transactions / label update / new address / encrypt / decrypt / create / unload / create-transaction, plus balance and inject) through the real handler at the same time; "
               "every acquisition of the wallet service lock (hook H9: sync.RWMutex semantics, waiters block durably) and every gap between two requests is a scheduling point decided "
               "by the tape (a goroutine inside a database transaction is never parked); a request that never returns - every remaining client blocked, nothing left to schedule, one "
               "simulated minute passed - is a violation, panics and statuses are judged as in the sequential phase; non-trivial = at least 10 scheduling decisions",
    "e5-conc-disk": "one run = the concurrent phase of C28 (2-4 client goroutines with 3-8 scripted wallet requests each through the real handler, every acquisition of the "
                    "wallet service lock (hook H9) and every gap between requests a tape-chosen scheduling point); when every request has been answered the wallets the service holds in "
                    "memory are compared with what a service started afresh on the same directory loads; non-trivial = at least 10 scheduling decisions",
    "e5-crash": "one run = a real node with a chain of 2-6 blocks, a non-empty pool, two wallets and kv data; 20-80 requests over all documented routes and methods with "
                "parameters built from live state (addresses, output ids, transaction ids, raw transactions: pooled, confirmed, spending spent outputs, malformed, truncated) "
                "and mutated (missing, huge, negative, non-UTF-8, wrong content type, malformed JSON, oversized bodies); a panic, a status outside 200-599, an unparsable "
                "declared-JSON body or a verify answer without verdict is a violation; non-trivial = at least 10 requests",
    "e6-pex": "one run = a real pex.New on a per-run directory (max 2-8, 0-3 trusted defaults, loopback allowed or not, optional custom peers file) with its real Run goroutine, "
              "driven by 8-60 operations: AddPeer / AddPeers (0-600) with address strings from 26 IP classes x 15 port classes x whitespace and punctuation decorations, "
              "RemovePeer, retry bookkeeping, SetHasIncomingPort/Random/Trusted, one-by-one filling, clock advances of a minute to 30 days (stale sweep every 10 simulated "
              "minutes), shutdown + reload (sometimes on a truncated peers file); after every operation every listed address is validated independently, the bound is "
              "checked after bulk adds and every configured trusted peer must be present and trusted; non-trivial = at least 5 checks",
    "e6-conc": "one run = a real pex.New (max 2-10, 0-2 trusted defaults, some peers added beforehand) with its real Run goroutine and 2-4 actor goroutines running 1-5 scripted "
               "operations each (AddPeers of 1 / 2 / max / 2*max / 40 fresh valid addresses, sometimes with an invalid or an already known one, AddPeer, RemovePeer, retry bookkeeping, "
               "SetHasIncomingPort, Random/Trusted/ResetAllRetryTimes) at the same time; every acquisition of the peer list lock (hook H10: sync.RWMutex semantics, waiters block "
               "durably) and every gap between two operations is a scheduling point decided by the tape, as are clock advances of a minute to 8 days (stale sweep of the Run "
               "goroutine, eviction age); at every quiescent point (nobody holds the lock) every listed address is validated independently, the list must not exceed its maximum and "
               "every configured trusted peer must be present and trusted; non-trivial = at least 4 scheduled lock acquisitions",
    "e2-pool": "one run = one real gnet.ConnectionPool (limits 1-3 outgoing / 1-3 incoming, write queue 1-16, send-result queue 1-64, read/write timeouts 0-3 s) started with "
               "Run on a simulated listener; 2-4 caller goroutines issue 2-7 operations each (SendMessage, BroadcastMessage, Disconnect, GetConnections, GetConnection, Size, "
               "SendPings, GetStaleConnections, Connect, draining SendResults), 0-4 incoming and any number of outgoing simulated connections whose scripted peers write "
               "message bursts, split frames, messages the handler refuses, unknown message ids, read, stall, close or reset; one goroutine calls Shutdown after 0-30 of its own "
               "scheduling turns (in 1/8 of the runs actors may start before the pool listens); 150-400 (thorough 450-700) tape-chosen scheduling decisions (which parked "
               "goroutine proceeds, or a clock advance of 1 ms - 3.1 s), then a fair drain; checked: race detector silent, every call returned success / the pool-closed error / "
               "a documented error of that call, calls started after Shutdown returned get the pool-closed error, Shutdown and Run return, the five registries are empty, every "
               "connection given to the pool is closed, no pool goroutine is left, connect/disconnect callbacks pair up, peers only ever receive well-formed frames, per-connection "
               "delivery order; distinct = distinct sequence of (yield label, harness/pool) decisions; non-trivial = at least 2 successful calls and one established connection",
    "e2-frame": "one run = one real gnet.ConnectionPool with its real goroutines (accept loop, strand, handleConnection with readLoop, the 32-slot receive queue, the receive loop, "
                "sendLoop) on simulated connections under the race detector and the tape-driven yield scheduler: 1-2 well-behaved peers each stream 2-8 bursts of 1-8 messages (padding "
                "0-1200 bytes whose content is a function of sender and sequence number) written as byte strings cut at tape-chosen offsets (a few random cuts, many small pieces, one "
                "cut inside the last frame), optionally followed by one malformed frame (unknown id, length below the minimum, length above the maximum incl. values within 4 of 2^32, "
                "undecodable body, trailing bytes, half a frame then EOF, a message the handler refuses) and one more well-formed message; the message handler is scheduled like every "
                "other goroutine, so decoded messages queue up behind it while later reads arrive; nobody disconnects or shuts down before everything sent was delivered or the "
                "connection is gone; checked: the delivered sequence is exactly the sent one with intact content, nothing is delivered after the malformed frame, a malformed frame "
                "disconnects with the matching reason, a well-formed stream is never disconnected (except by the documented receive-queue overflow), no race report, no panic; "
                "non-trivial = at least 3 messages delivered and one cut",
    "e1-net": "one run = a network of 2-3 real nodes (publisher + followers; real visor, bolt, daemon handlers and gnet pool, stepped through hooks H4/H5) on simulated "
              "links; 20-90 events: clients hand transactions (incl. fat ones and a packer that fills the pool to the block size limit) to any node, the publisher's block "
              "timer, request/announce/refresh timers, clock advance, and delivery of one in-flight frame with faults (drop, duplicate, chunked, and for C10 third-party "
              "tampering of the signed objects inside GIVT/GIVB); per-run knobs: maximum outgoing length from its legal minimum upwards, response cap, request count; "
              "C23 watches every frame and every send error, C10 compares everything any node accepts with what honest signers emitted; "
              "distinct = distinct (event kind, outcome) sequence",
    "e1-frame": "one run = 1-5 rounds against one real node (gnet decodeData / convertToMessage / daemon handlers stepped through hook H4): a scripted, correctly introduced peer "
                "writes a burst of 1-32 well-formed messages (PING, GETB, ANNB, PONG, ANNT, GIVP) as ONE byte stream cut at tape-chosen offsets (single read, random cuts, cuts "
                "around frame boundaries, byte-by-byte stretches), optionally followed by a malformed tail (length below minimum / above the configured maximum, unknown id, "
                "undecodable body, trailing bytes, EOF mid-frame, noise) and one more well-formed message; the node's replies must correspond one-to-one and in order to the "
                "messages before the bad frame, and a bad frame must disconnect with the matching reason; non-trivial = at least 3 chunks delivered",
    "e1-book": "one run = one real node (daemon handlers + gnet pool stepped through hooks H4/H5) and scripted peers on 3 IPs x 3 ports: 8-60 events (incoming connect, "
               "outgoing attempt, its success or failure, introductions with mirror in {0, own, A, B} and listen port in {0, p, q, own}, other messages, peer disconnect, "
               "clock advance + cull / stale / ping ticks), then removal of every connection; after every event the five bookkeeping maps are compared with the "
               "connections the pool really holds; distinct = distinct (event kind, outcome) sequence; non-trivial = at least 5 comparisons",
    "e1-gate": "one run = one real node and scripted peers sending, on fresh and introduced connections, introductions with generated fields and extra bytes (wrong key, "
               "versions around the minimum, own mirror, parameters in/out of range, 8 user agents, truncated / extended / lying extras) and all other message types in "
               "any order; introduced-state, disconnects and replies are compared with an independent predicate on the bytes sent; non-trivial = at least 5 events",
    "e1-sync": "one run = a real publisher visor makes 3-12 (thorough 3-25) blocks; a real follower (visor + bolt + daemon handlers + gnet pool stepped through hooks H4/H5) "
               "is connected only to 1-3 scripted relays that answer or ignore its GETB requests, send GIVB with the right / overlapping / gapped / shuffled / repeated / "
               "forged / re-signed blocks, announce arbitrary heights, disconnect, deliver frames chunked or twice; per-run knobs: request count, response cap, message "
               "length limit; then a fault-free phase with one honest full-chain peer; distinct = distinct (event kind, outcome) sequence; non-trivial = at least one "
               "block appended via GIVB and at least one fault fired",
    "e3-service": "one run = one seeded history of 8-40 wallet-service operations (create of all four types with seeds from a pool of 3 to force duplicates, temporary wallets, "
                  "new/scan addresses, label, encrypt, decrypt, recover, unload, secret/non-secret updates; wrong passwords, unknown ids, failing callbacks); in half of the runs "
                  "a disk error with a short write hits a drawn step of a drawn save; after every operation memory is compared with what a fresh NewService loads; "
                  "distinct = distinct (operation kind, outcome) sequence; non-trivial = at least 3 successful operations",
    "e3-crash": "one run = one seeded wallet-service or key-value-storage history; for every operation that touches the disk, EVERY prefix of the primitive file operations "
                "it issued is materialised (before each step, after open(O_TRUNC), each write cut at 1, half, len-1 and a drawn offset, after each step) and a fresh "
                "service/manager is started on it; evaluations = crash states; distinct = distinct directory images",
    "e3-derive": "one run = one wallet (deterministic / bip44 with or without passphrase / xpub) driven through 3-20 generate(0,1,2,5; external or change chain) / scan / "
                 "serialise+reload / lock+unlock operations; after every step its entries are compared with a fresh wallet generating the same total in one batch; "
                 "non-trivial = at least 3 comparisons",
    "e3-encrypt": "one run = one wallet (deterministic / bip44 / collection) and cipher: locked form and everything written to the simulated disk scanned for secrets, "
                  "unlock round trip, wrong passwords, then 6 corruptions of the stored secrets field (bit flips, truncation, length prefix, metadata edits, empty) "
                  "followed by load + unlock; non-trivial = at least one corruption reached Unlock",
    "e4": "one run = one seeded life-cycle script (database creation, start-up, genesis, 1-6 (thorough 1-12) received blocks, pool injections, refresh, "
          "remove-invalid, announce flush, restarts, forced index/history rebuild) executed on a follower while the file image after every commit is recorded; "
          "then EVERY commit boundary of that script, plus tape-chosen states inside commits (every ordered prefix of the dirty data pages of chosen commits, "
          "torn pages, arbitrary page subsets, torn meta page), is restarted from (plain / forced verification / verification+reset) and caught up; "
          "evaluations = crash states restarted from; distinct = distinct (file image, start-up variant); non-trivial = all of them (each is a different durable state)",
    "e1": "one run = one seeded history of 20-120 (thorough: 20-300) operations (inject valid/mutated/duplicate transactions, publisher block creation, "
          "block delivery in/out of order, key-holding forger blocks with header/signature/body mutations, refresh, remove-invalid, clock jumps, restarts, queries) "
          "against 1-3 real visor+bolt nodes shadowed by the reference ledger; distinct = distinct sequence of (operation kind, outcome); "
          "non-trivial = at least 2 blocks appended and at least one fault/mutation fired",
}


def env():
    e = dict(os.environ)
    e.update(GOFLAGS="-mod=mod", GOPROXY="off", GOSUMDB="off", GOTOOLCHAIN="local", GOMAXPROCS=e.get("VERIF_GOMAXPROCS", "1"))
    return e


def die(msg, code=2):
    print("HARNESS-ERROR: " + msg, flush=True)
    sys.exit(code)


def build(engine, repo):
    """Rebuild the engine's test binary from the repository working tree."""
    os.makedirs(BUILD, exist_ok=True)
    tag = hashlib.sha1(repo.encode()).hexdigest()[:8]
    out = os.path.join(BUILD, "%s-%s.test" % (engine, tag))
    lock = open(os.path.join(BUILD, "build-%s-%s.lock" % (engine, tag)), "w")
    fcntl.flock(lock, fcntl.LOCK_EX)
    try:
        modfile = os.path.join(HARNESS, "go.mod")
        args = [GO, "test", "-c", "-tags", "verif", "-o", out]
        if repo != "/repo":
            mod = open(modfile).read().replace("=> /repo", "=> " + repo)
            modfile = os.path.join(BUILD, "go-%s.mod" % tag)
            open(modfile, "w").write(mod)
            shutil.copy(os.path.join(repo, "go.sum"), os.path.join(BUILD, "go-%s.sum" % tag))
            args += ["-modfile", modfile]
        else:
            shutil.copy(os.path.join(repo, "go.sum"), os.path.join(HARNESS, "go.sum"))
        if ENGINES[engine]["race"]:
            args += ["-race", "-gcflags=all=-d=checkptr=0"]
        args.append("./" + engine)
        t0 = time.time()
        e = env()
        e.pop("GOMAXPROCS", None)
        p = subprocess.run(args, cwd=HARNESS, env=e, stdout=subprocess.PIPE, stderr=subprocess.STDOUT, text=True)
        if p.returncode != 0:
            print(p.stdout)
            die("build of engine %s against %s failed" % (engine, repo))
        return out, time.time() - t0
    finally:
        fcntl.flock(lock, fcntl.LOCK_UN)


def scratch_root():
    for d in ("/dev/shm", os.path.join(VERIF, ".run")):
        try:
            os.makedirs(d, exist_ok=True)
            p = os.path.join(d, "verif-run-%d" % os.getpid())
            os.makedirs(p, exist_ok=True)
            return p
        except OSError:
            continue
    die("no scratch directory available")


WORKERS = []


def kill_workers():
    """No worker may outlive the driver (a worker whose run computes for ever would otherwise keep a core busy)."""
    for p in WORKERS:
        if p.poll() is None:
            try:
                p.kill()
            except OSError:
                pass


atexit.register(kill_workers)


def run_worker(binary, job, jobfile, timeout):
    with open(jobfile, "w") as f:
        json.dump(job, f)
    e = env()
    e["VERIF_JOB"] = jobfile
    # no asynchronous preemption in any worker: the tape-driven goroutine scheduler (E2, and the concurrent phases of
    # C28, C19 and C26 in the E1 / E6 binaries) keeps its park / release flags in plain memory, and a goroutine
    # preempted inside those few instructions can miss its release (seen as a rare, unrepeatable "request hangs"
    # on a loaded machine before this was set for every engine)
    e["GODEBUG"] = "asyncpreemptoff=1"
    if os.path.basename(binary).startswith("e2-"):
        # race-detector reports go to a per-process file the engine reads back after every run; no preemption inside the tiny
        # unsynchronised sections of the scheduler
        racelog = os.path.join(job["scratch"], "race")
        e["GORACE"] = "log_path=%s halt_on_error=0 exitcode=0" % racelog
        e["VERIF_RACE_LOG"] = racelog
        e["GODEBUG"] = "asyncpreemptoff=1"
        e["GOMAXPROCS"] = "1"
    # the worker's own output (mostly the log lines of the code under test) goes to a file: a pipe that the driver
    # reads one worker at a time would stall the other workers as soon as it fills
    logf = open(jobfile + ".log", "w")
    p = subprocess.Popen([binary, "-test.run", "^TestWorker$", "-test.timeout", "0"], env=e, stdout=logf, stderr=subprocess.STDOUT, text=True)
    p.logpath = jobfile + ".log"
    WORKERS.append(p)
    logf.close()
    return p


def worker_output(p, n=4000):
    """Tail of a worker's output, preceded by the line that says why the Go runtime gave up, if there is one."""
    try:
        with open(p.logpath, "rb") as f:
            data = f.read()
    except OSError:
        return ""
    txt = data.decode("utf-8", "replace")
    head = ""
    for key in ("fatal error:", "panic:", "HARNESS-WATCHDOG", "runtime: "):
        i = txt.find(key)
        if i >= 0:
            head = txt[i:i + 1500] + "\n...\n"
            break
    return head + txt[-n:]


def classify_crash(txt):
    """A worker that died of a fatal error of the Go runtime (out of memory, concurrent map access, stack overflow,
    a signal) while running code of /repo: returns (signature, excerpt); None when the death is not attributable to the
    code under test (then it is harness trouble, exit 2)."""
    key = None
    for k in ("fatal error:", "unexpected signal", "SIGSEGV", "SIGBUS"):
        i = txt.find(k)
        if i >= 0 and (key is None or i < key[0]):
            key = (i, k)
    if key is None:
        return None
    i = key[0]
    first_line = txt[i:txt.find("\n", i)].strip()
    # the stack of the goroutine that was running
    j = txt.find("goroutine ", i)
    if j < 0:
        return None
    k = txt.find("\n\n", j)
    stack = txt[j:k if k > 0 else j + 6000]
    frames = [l.strip() for l in stack.split("\n") if "github.com/skycoin/skycoin/src/" in l and not l.startswith("\t")]
    if not frames:
        return None
    fn = frames[0]
    fn = fn[fn.index("skycoin/skycoin/src/") + len("skycoin/skycoin/src/"):]
    if "(" in fn:
        fn = fn[:fn.rindex("(")]
    return (first_line[:80] + " @ " + fn, txt[i:i + 3000])


def crash_run(binary, jp, tier, seed, idx, scratch, tag):
    """Run one run index alone in a fresh process; returns the crash classification of that process (or None)."""
    out = os.path.join(scratch, "crash-%s.json" % tag)
    job = dict(property=jp, profile="default", tier=tier, seed=seed, first=idx, stride=1 << 40, max_runs=idx + 1, budget_s=0, out=out,
               scratch=scratch, shrink_budget=0)
    p = run_worker(binary, job, os.path.join(scratch, "crash-job-%s.json" % tag), 900)
    try:
        p.communicate(timeout=900)
    except subprocess.TimeoutExpired:
        p.kill()
        return None
    if os.path.exists(out):
        return None
    try:
        txt = open(p.logpath, "rb").read().decode("utf-8", "replace")
    except OSError:
        return None
    return classify_crash(txt)


def load_known():
    p = os.path.join(VERIF, "known_findings.json")
    if not os.path.exists(p):
        return []
    return json.load(open(p)).get("findings", [])


def match_known(known, prop, v):
    for k in known:
        if k["property"] == prop and k["class"] == v["class"] and k["signature"] == v["signature"]:
            return k
    return None


def known_for_replay(prop, found):
    """Recorded findings do not end a run during exploration (the run goes on and may find something else), so a
    replay must be told about them too - except the one it is meant to reproduce."""
    own = None
    if isinstance(found.get("violation"), dict):
        own = found["violation"].get("class", "") + "|" + found["violation"].get("signature", "")
    return [k["class"] + "|" + k["signature"] for k in load_known() if k["property"] == prop and k["class"] + "|" + k["signature"] != own]


def replay_once(binary, prop, tier, found, scratch, tag, jp=None):
    out = os.path.join(scratch, "replay-%s.json" % tag)
    job = dict(property=jp or prop, profile="default", tier=tier, seed=0, first=0, stride=1, max_runs=1, budget_s=0, out=out,
               scratch=scratch, replay_tape=found["tape"] or [0], replay_seed=found["run_seed"], shrink_budget=0, known=known_for_replay(prop, found))
    p = run_worker(binary, job, os.path.join(scratch, "replay-job-%s.json" % tag), 600)
    try:
        p.communicate(timeout=900)
    except subprocess.TimeoutExpired:
        p.kill()
        return None
    if not os.path.exists(out):
        return None
    return json.load(open(out))


def shrink_external(binary, prop, tier, found, scratch, tag, wall_s, jp=None):
    out = os.path.join(scratch, "%s.json" % tag)
    job = dict(property=jp or prop, profile="default", tier=tier, seed=0, first=0, stride=1, max_runs=1, budget_s=0, out=out, scratch=scratch,
               replay_tape=found["tape"] or [0], replay_seed=found["run_seed"], replay_class=found["violation"]["class"],
               replay_sig=found["violation"]["signature"], shrink_external=True, shrink_budget=250 if tier == "quick" else 1500, shrink_wall_s=wall_s,
               known=known_for_replay(prop, found))
    p = run_worker(binary, job, os.path.join(scratch, "%s-job.json" % tag), wall_s)
    try:
        p.communicate(timeout=wall_s + 300)
    except subprocess.TimeoutExpired:
        p.kill()
        return None
    if not os.path.exists(out):
        return None
    s = json.load(open(out))
    if s.get("harness_error") or not s.get("found"):
        return None
    return s["found"][0]


def main():
    ap = argparse.ArgumentParser()
    ap.add_argument("property")
    ap.add_argument("--tier", default=os.environ.get("VERIF_TIER", "quick"))
    ap.add_argument("--replay")
    ap.add_argument("--budget", type=float, default=None)
    ap.add_argument("--workers", type=int, default=int(os.environ.get("VERIF_WORKERS", "16")))
    ap.add_argument("--max-runs", type=int, default=0)
    ap.add_argument("--determinism", type=int, default=0, help="self-test: run the first N seeds in several processes and compare event-log hashes")
    a = ap.parse_args()
    prop = a.property
    if prop not in PROPS:
        die("unknown or unclaimed property " + prop)
    tier = a.tier if a.tier in ("quick", "thorough") else "quick"
    seed = int(os.environ.get("VERIF_SEED", "1")) & ((1 << 63) - 1)
    repo = os.environ.get("VERIF_REPO", "/repo")
    spec = PROPS[prop]
    engine = spec["engine"]
    budget = a.budget
    if budget is None:
        budget = float(os.environ.get("VERIF_BUDGET_S", "0") or 0) or (spec.get("quick_s", 60) if tier == "quick" else spec.get("thorough_s", 1500))

    t_start = time.time()
    if a.replay:
        try:
            engine = json.load(open(a.replay)).get("engine", engine)
        except (OSError, ValueError):
            die("cannot read replay file " + a.replay)
        if engine not in ENGINES:
            engine = spec["engine"]
    binary, build_s = build(engine, repo)
    scratch = scratch_root()
    try:
        if a.replay:
            sys.exit(do_replay(binary, prop, a.replay, scratch))
        if a.determinism:
            sys.exit(do_determinism(binary, prop, tier, seed, a.determinism, scratch))
        second = spec.get("second")
        if second:
            # the property is decided by two engines in turn; the budget is split
            b2 = budget * second.get("share", 0.4)
            code, ev = explore(binary, prop, tier, seed, budget - b2, a.workers, a.max_runs, scratch, spec, engine, build_s, t_start)
            t2 = time.time()
            binary2, build2_s = build(second["engine"], repo)
            spec2 = dict(spec, **second)
            code2, ev2 = explore(binary2, prop, tier, seed, b2, a.workers, a.max_runs, scratch, spec2, second["engine"], build2_s, t2)
            code = max(code, code2)
            ev = merge_evidence(ev, ev2, spec.get("rule", engine), spec2.get("rule", second["engine"]))
        else:
            code, ev = explore(binary, prop, tier, seed, budget, a.workers, a.max_runs, scratch, spec, engine, build_s, t_start)
        write_evidence(prop, ev)
    finally:
        shutil.rmtree(scratch, ignore_errors=True)
    sys.exit(code)


def do_replay(binary, prop, path, scratch):
    r = json.load(open(path))
    if r.get("property") != prop:
        die("replay file is for property %s" % r.get("property"))
    if r.get("index_replay"):
        # the recorded run killed its process: repeat it alone by index and see whether the process dies the same way
        crash = crash_run(binary, r.get("job_property") or prop, r.get("tier", "quick"), r["base_seed"], r["run_index"], scratch, "replay")
        if crash:
            print("replayed: the process died: %s" % crash[0])
            print(crash[1][:1500])
            if crash[0] == r["violation"]["signature"]:
                print("VIOLATION property=%s replay=%s" % (prop, path))
                return 1
        print("replay did not reproduce the recorded death of the process")
        return 0
    found = dict(tape=r["tape"], run_seed=r["run_seed"], violation=r.get("violation"))
    attempts = r.get("replay_attempts", 1)
    for i in range(attempts):
        s = replay_once(binary, prop, r.get("tier", "quick"), found, scratch, "r%d" % i, r.get("job_property"))
        if s is None or s.get("harness_error"):
            die("replay run failed: %s" % (s or {}).get("harness_error"))
        for line in s.get("replay_log", [])[-40:]:
            print("  " + line)
        for fnd in s["found"]:
            v = fnd["violation"]
            print("replayed: class=%s signature=%s" % (v["class"], v["signature"]))
            print("  " + v["detail"])
            if v["class"] == r["violation"]["class"] and v["signature"] == r["violation"]["signature"]:
                print("VIOLATION property=%s replay=%s" % (prop, path))
                return 1
    print("replay did not reproduce the recorded violation (%s)" % r["violation"]["class"])
    return 0


def do_determinism(binary, prop, tier, seed, n, scratch):
    """Run seeds 0..n-1 in 3 worker layouts x 3 GOMAXPROCS values and compare log hashes."""
    results = []
    for gmp, stride in (("1", 1), ("4", 3), ("16", 7)):
        if prop in ("C28c", "C19c", "C26c"):
            # phases under the tape-driven goroutine scheduler run with GOMAXPROCS=1 by construction (its park / release
            # protocol uses plain memory, see DESIGN.md 4.2): only the worker layout varies
            gmp = "1"
        os.environ["VERIF_GOMAXPROCS"] = gmp
        procs = []
        for w in range(stride):
            out = os.path.join(scratch, "det-%s-%d.json" % (gmp, w))
            job = dict(property=prop, profile="default", tier=tier, seed=seed, first=w, stride=stride, max_runs=n, budget_s=0, out=out,
                       scratch=scratch, shrink_budget=0, log_dump=True)
            procs.append((run_worker(binary, job, os.path.join(scratch, "det-job-%s-%d.json" % (gmp, w)), 0), out))
        merged = {}
        for p, out in procs:
            p.communicate()
            s = json.load(open(out))
            if s.get("harness_error"):
                die("determinism self-test: " + s["harness_error"])
            merged.update(s.get("log_hashes", {}))
        results.append(merged)
    bad = [k for k in results[0] if any(r.get(k) != results[0][k] for r in results[1:])]
    print("determinism self-test %s: %d seeds x %d layouts, %d divergent" % (prop, len(results[0]), len(results), len(bad)))
    if bad:
        print("divergent run indexes:", sorted(bad, key=int)[:20])
        return 2
    return 0


def explore(binary, prop, tier, seed, budget, workers, max_runs, scratch, spec, engine, build_s, t_start):
    external = bool(spec.get("external"))
    jp = spec.get("job_property", prop)
    shrink = 0 if external else (400 if tier == "thorough" else 150)
    known_sigs = [k["class"] + "|" + k["signature"] for k in load_known() if k["property"] == prop]
    t_explore = time.time()

    def start(w, first, gen):
        out = os.path.join(scratch, "w%d-%d.json" % (w, gen))
        left = budget - (time.time() - t_explore)
        job = dict(property=jp, profile="default", tier=tier, seed=seed, first=first, stride=workers, max_runs=max_runs, budget_s=max(left, 0.001), out=out,
                   scratch=scratch, shrink_budget=shrink, known=known_sigs)
        return [run_worker(binary, job, os.path.join(scratch, "job%d-%d.json" % (w, gen)), left), out, w, gen]

    procs = [start(w, w, 0) for w in range(workers)]
    sums = []
    restarts = 0
    while procs:
        p, out, w, gen = procs.pop(0)
        try:
            p.communicate(timeout=budget * 6 + 900)
            stdout = worker_output(p)
        except subprocess.TimeoutExpired:
            p.kill()
            die("worker %d exceeded the wall-clock watchdog" % w)
        if not os.path.exists(out):
            # the process died.  A fatal error of the Go runtime raised by code of /repo (it cannot be recovered from, the
            # node would be gone) is a finding of its own kind: the run is repeated alone in a fresh process, and if that
            # process dies the same way the death is reported as a violation (class process-dies) with an index replay.
            crash = None
            try:
                crash = classify_crash(open(p.logpath, "rb").read().decode("utf-8", "replace"))
            except OSError:
                pass
            cur = None
            if crash and os.path.exists(out + ".cur"):
                cur = json.load(open(out + ".cur"))
                again = crash_run(binary, jp, tier, seed, cur["run_index"], scratch, "w%d-%d" % (w, gen))
                if not again or again[0] != crash[0]:
                    cur = None
            if not cur:
                print(stdout[-6000:])
                die("worker %d wrote no summary (exit %s)" % (w, p.returncode))
            v = dict(property=jp, **{"class": "process-dies"}, signature=crash[0], step=0,
                     detail="the process running the code under test died of a fatal runtime error (%s); the same run dies the same way in a fresh process" % crash[0])
            sums.append(dict(runs=1, steps=0, sim_seconds=0, counters={}, fingerprints=[], nontrivial=[], states=[], undecided=0, samples=[], notes=[],
                             found=[dict(violation=v, run_index=cur["run_index"], run_seed=cur["run_seed"], tape=[], orig_tape_len=0, minimised=False, shrink_runs=0,
                                         log_hash="", log_tail=crash[1].split("\n")[:60], knobs={}, counters={}, index_replay=True)]))
            if time.time() - t_explore < budget and restarts < 2000 and len([x for x in sums if x.get("found") and x["found"][0].get("index_replay")]) < 3:
                restarts += 1
                procs.append(start(w, cur["run_index"] + workers, gen + 1))
            continue
        s = json.load(open(out))
        if s.get("harness_error"):
            die("worker %d: %s" % (w, s["harness_error"]))
        if p.returncode not in (0,):
            print(stdout[-4000:])
            die("worker %d exited with status %s" % (w, p.returncode))
        sums.append(s)
        # a worker that left early because a run could not be cleaned up (violation or recorded finding with goroutines
        # left behind) is replaced by a fresh process that continues with the next run index
        nxt = s.get("next_index", 0)
        new_here = [f for f in s["found"] if (f["violation"]["class"] + "|" + f["violation"]["signature"]) not in known_sigs]
        if s.get("tainted") and nxt and not new_here and time.time() - t_explore < budget and (not max_runs or nxt < max_runs) and restarts < 2000:
            restarts += 1
            procs.append(start(w, nxt, gen + 1))
    for s in sums:
        s["wall_s"] = s.get("wall_s", 0)

    t_explore_end = time.time()
    runs = sum(s["runs"] for s in sums)
    steps = sum(s["steps"] for s in sums)
    sim_ns = sum(s["sim_seconds"] for s in sums) * 1e9
    counters = {}
    for s in sums:
        for k, v in s["counters"].items():
            counters[k] = counters.get(k, 0) + v
    fps, nts, sts = set(), set(), set()
    for s in sums:
        fps.update(s["fingerprints"])
        nts.update(s["nontrivial"])
        sts.update(s["states"])
    undecided = sum(s["undecided"] for s in sums)
    samples = [x for s in sums for x in s.get("samples") or []][:5]
    notes = [x for s in sums for x in s.get("notes") or []][:10]

    known = load_known()
    seen = {}
    for s in sums:
        for f in s["found"]:
            key = (f["violation"]["class"], f["violation"]["signature"])
            if key not in seen or len(f["tape"]) < len(seen[key]["tape"]):
                seen[key] = f
    new_violations = []
    known_hits = []
    for key, f in sorted(seen.items()):
        k = match_known(known, prop, f["violation"])
        if k is not None:
            known_hits.append((k, f))
        else:
            new_violations.append(f)

    code = 0
    unreproduced = 0
    replay_paths = []
    os.makedirs(os.path.join(VERIF, "replays"), exist_ok=True)
    for k, f in known_hits:
        print("KNOWN-FINDING: property=%s %s [class=%s signature=%s]" % (prop, k["what"], k["class"], k["signature"]))
    for i, f in enumerate(new_violations):
        v = f["violation"]
        attempts = spec.get("replay_attempts", 1)
        if external and i < 2:
            # minimise in fresh processes (only the first two distinct violations: each costs up to a minute) (a failed run of this engine cannot be repeated inside one process)
            m = shrink_external(binary, prop, tier, f, scratch, "shrink%d" % i, 60 if tier == "quick" else 600, jp)
            if m is not None:
                f = dict(f, tape=m["tape"], minimised=True, shrink_runs=m.get("shrink_runs", 0), orig_tape_len=f.get("orig_tape_len", len(f["tape"])))
        # confirm in a fresh process before reporting
        ok, s, hits = False, None, 0
        if f.get("index_replay"):
            ok, hits, attempts = True, 1, 1  # confirmed when it was found (the run was repeated alone in a fresh process)
            s = dict(found=[dict(log_hash="", log_tail=f.get("log_tail", []))])
        for a in range(0 if f.get("index_replay") else attempts):
            s1 = replay_once(binary, prop, tier, f, scratch, "confirm%d-%d" % (i, a), jp)
            match = [x for x in (s1 or {}).get("found", []) if x["violation"]["class"] == v["class"] and x["violation"]["signature"] == v["signature"]]
            if bool(s1 and not s1.get("harness_error") and match):
                hits += 1
                if not ok:
                    # (a run may also pass recorded findings on its way: the entry that matters is the matching one)
                    ok, s = True, dict(s1, found=match)
                if not external:
                    break
        if spec.get("must_reproduce") and hits < attempts:
            # (every attempt must repeat it: in these phases a genuine deadlock is a function of the tape, while the rare
            # spurious observation - seen about once in a few thousand runs, cause not found - would have to recur by chance)
            ok = False
        if not ok and spec.get("must_reproduce"):
            # this engine's runs are exact functions of the tape: an observation that three fresh processes do not
            # repeat is not attributed to the code under test (it is kept in the evidence notes)
            print("UNREPRODUCED: %s/%s of run seed %d did not repeat in %d fresh processes; not reported" % (v["class"], v["signature"], f["run_seed"], attempts))
            notes.append("unreproduced observation: %s | %s | run seed %d" % (v["class"], v["signature"], f["run_seed"]))
            unreproduced += 1
            continue
        if not ok:
            if not external:
                if os.environ.get("VERIF_KEEP_UNREPRODUCED"):
                    json.dump(f, open(os.environ["VERIF_KEEP_UNREPRODUCED"], "w"))
                die("violation %s/%s of run seed %d did not reproduce in a fresh process (replay must be exact in this engine)" % (v["class"], v["signature"], f["run_seed"]))
            # E2: the observation itself (race report with both stacks / stuck call with the goroutine dump) is the evidence; see DESIGN.md 4.2
            s = dict(found=[dict(log_hash=f.get("log_hash", ""), log_tail=f.get("log_tail", []))])
        f["reproduced"] = "%d/%d" % (hits, attempts)
        path = os.path.join(VERIF, "replays", "%s-%d-%s.json" % (prop, f["run_seed"], hashlib.sha1((v["class"] + v["signature"]).encode()).hexdigest()[:6]))
        rec = dict(property=prop, engine=engine, job_property=jp, tier=tier, violation=v, run_seed=f["run_seed"], base_seed=seed, run_index=f["run_index"],
                   tape=f["tape"], original_tape_len=f["orig_tape_len"], minimised=f["minimised"], shrink_runs=f["shrink_runs"],
                   knobs=f["knobs"], fault_counts={k2: v2 for k2, v2 in f["counters"].items() if k2.startswith(("fault.", "mut.", "bm."))},
                   log_hash=s["found"][0]["log_hash"], log_tail=s["found"][0]["log_tail"],
                   replay_attempts=spec.get("replay_attempts", 1), reproduced=f.get("reproduced", ""), index_replay=bool(f.get("index_replay")),
                   replay_cmd="python3 /verif/check.py %s --replay %s" % (prop, path))
        json.dump(rec, open(path, "w"), indent=1)
        replay_paths.append(path)
        print("violation: %s" % v["detail"])
        print("VIOLATION property=%s replay=%s" % (prop, path))
        code = 1

    wall = time.time() - t_start
    explore_wall = t_explore_end - t_explore
    faults = {k: v for k, v in sorted(counters.items()) if k.startswith(("fault.", "mut.", "bm."))}
    probes = {k: v for k, v in sorted(counters.items()) if k.startswith("probe.")}
    other = {k: v for k, v in sorted(counters.items()) if not k.startswith(("fault.", "mut.", "bm.", "probe."))}
    evidence = dict(
        property_id=prop, tier=tier, seed=seed, level=spec["level"], wall_s=round(wall, 2), violations=len(new_violations) - unreproduced,
        coverage=dict(
            evaluations=counters.get(spec["evaluations_counter"], 0) if "evaluations_counter" in spec else runs,
            distinct_nontrivial=len(sts) if spec.get("distinct") == "states" else len(nts), rule=RULES[spec.get("rule", engine)],
            samples=samples or [["(no sample)"]], simulation_runs=runs,
            distinct_fingerprints=len(fps), distinct_abstract_states=len(sts), steps=steps,
            simulated_seconds=round(sim_ns / 1e9, 1), runs_per_hour=int(runs / explore_wall * 3600) if explore_wall > 0 else 0,
            explore_wall_s=round(explore_wall, 2), build_s=round(build_s, 2), workers=workers,
            fault_counts=faults, probe_counts=probes, outcome_counts=other, undecided=undecided,
            known_findings_hit=[k["signature"] for k, _ in known_hits], replay_files=replay_paths,
            real_components=ENGINES[engine]["real"], stubbed_components=ENGINES[engine]["stub"], notes=notes,
            exhaustive=False),
        assumptions=["the reference model in /verif/harness/model encodes the property statement correctly",
                     "seeded search samples histories; a clean batch is evidence, not proof",
                     "go1.26.8 testing/synctest fake clock is faithful to time semantics"],
    )
    print("%s %s: %d runs (%d distinct, %d non-trivial), %d steps, %.0f simulated s, %d undecided, %d known finding(s), %d violation(s), %.1f s wall"
          % (prop, tier, runs, len(fps), len(nts), steps, sim_ns / 1e9, undecided, len(known_hits), len(new_violations) - unreproduced, wall))
    return code, evidence


def write_evidence(prop, evidence):
    os.makedirs(os.path.join(VERIF, "evidence"), exist_ok=True)
    tmp = os.path.join(VERIF, "evidence", prop + ".json.tmp")
    json.dump(evidence, open(tmp, "w"), indent=1)
    os.replace(tmp, os.path.join(VERIF, "evidence", prop + ".json"))


def merge_evidence(a, b, tag_a, tag_b):
    """Evidence of a property decided by two engines in turn: counts add up, texts are kept side by side."""
    ca, cb = a["coverage"], b["coverage"]
    out = dict(a)
    out["wall_s"] = round(a["wall_s"] + b["wall_s"], 2)
    out["violations"] = a["violations"] + b["violations"]
    cov = dict(ca)
    for k in ("evaluations", "distinct_nontrivial", "simulation_runs", "distinct_fingerprints", "distinct_abstract_states", "steps", "undecided"):
        cov[k] = ca[k] + cb[k]
    cov["simulated_seconds"] = round(ca["simulated_seconds"] + cb["simulated_seconds"], 1)
    cov["explore_wall_s"] = round(ca["explore_wall_s"] + cb["explore_wall_s"], 2)
    cov["build_s"] = round(ca["build_s"] + cb["build_s"], 2)
    cov["runs_per_hour"] = int(cov["simulation_runs"] / cov["explore_wall_s"] * 3600) if cov["explore_wall_s"] > 0 else 0
    cov["rule"] = "[%s] %s  [%s] %s" % (tag_a, ca["rule"], tag_b, cb["rule"])
    cov["samples"] = (ca["samples"] + cb["samples"])[:6]
    for k in ("fault_counts", "probe_counts", "outcome_counts"):
        m = {}
        for tag, src in ((tag_a, ca[k]), (tag_b, cb[k])):
            for kk, v in src.items():
                m["%s:%s" % (tag, kk)] = v
        cov[k] = m
    cov["known_findings_hit"] = ca["known_findings_hit"] + cb["known_findings_hit"]
    cov["replay_files"] = ca["replay_files"] + cb["replay_files"]
    cov["real_components"] = ["[%s] %s" % (tag_a, x) for x in ca["real_components"]] + ["[%s] %s" % (tag_b, x) for x in cb["real_components"]]
    cov["stubbed_components"] = ["[%s] %s" % (tag_a, x) for x in ca["stubbed_components"]] + ["[%s] %s" % (tag_b, x) for x in cb["stubbed_components"]]
    cov["notes"] = ca["notes"] + cb["notes"]
    cov["phases"] = [dict(engine=tag_a, runs=ca["simulation_runs"], wall_s=ca["explore_wall_s"]), dict(engine=tag_b, runs=cb["simulation_runs"], wall_s=cb["explore_wall_s"])]
    out["coverage"] = cov
    return out


if __name__ == "__main__":
    main()
