#!/usr/bin/env python3
"""Regenerates the seeded-change table of DESIGN.md (section 7.2) from seeded/*/meta.json."""
import json, glob, os, re
V = os.path.dirname(os.path.abspath(__file__))
rows = []
for f in sorted(glob.glob(os.path.join(V, "seeded", "*", "meta.json"))):
    m = json.load(open(f))
    by = m["detected_by"].replace("|", "/")
    needs = m["needs_to_manifest"].replace("|", "/")
    rows.append("| %s | %s | %s | %s |" % (m["id"], needs, m["detected"], by))
table = "| change | needs, in order to manifest | caught | by which check, as what |\n|---|---|---|---|\n" + "\n".join(rows) + "\n"
p = os.path.join(V, "DESIGN.md")
s = open(p).read()
a, b = "<!-- seeded-table-begin -->", "<!-- seeded-table-end -->"
i, j = s.index(a), s.index(b)
s = s[:i + len(a)] + "\n" + table + s[j:]
open(p, "w").write(s)
print(len(rows), "rows")
