#!/usr/bin/env python3
"""Writes MANIFEST.json from the table below (kept in one place so it stays valid)."""
import json, subprocess, os
V = os.path.dirname(os.path.abspath(__file__))

CLAIMED = {
 "C01": ("exploration", "4.1, 5 C01", "seeded ledger histories vs. reference model with injected disk I/O errors (deterministic simulation)",
         "Real visor+bolt nodes driven through seeded histories of valid, mutated, duplicated and re-ordered transactions and blocks (incl. key-holder forged blocks and amounts near 2^64); after every step the big-integer sum of the unspent set must equal the genesis volume and every accepted transaction must have input coins == output coins on the node's own pre-state.",
         "Samples histories (20-300 operations, 1-3 nodes); the reference model's coin rules and the harness' own encoder/hash are trusted; network layer not involved (blocks/txns go to visor methods)."),
 "C02": ("exploration", "4.1, 5 C02", "seeded ledger histories vs. reference model with injected disk I/O errors (deterministic simulation)",
         "After every step of every seeded history the node's unspent set (ids, owner, coins, hours, creation seq/time) must equal the model's created-minus-spent set; output ids are recomputed with the harness encoder; blocks with any double-spend shape must be refused.",
         "Sampling, not enumeration; model trusted; hash collisions out of reach."),
 "C03": ("exploration", "4.1, 5 C03", "seeded ledger histories with simulated clock jumps and forged block times vs. big-integer hour model",
         "For every accepted block (publisher-made on the fake clock with jumps up to 50 years, or key-holder forged with arbitrary times up to 2^64) output hours must not exceed exact accrued input hours at the previous block time; accrued hours reported by the node must match hours + coins*dt/3.6e9 and never decrease; no pooled transaction has overflowing output hours.",
         "One recorded known finding (publisher-signed output-hour sum wrap, documented legacy). Region where 64-bit intermediates overflow but the exact value fits is counted as undecided."),
 "C04": ("exploration", "4.1, 5 C04", "seeded block-mutation injection into live histories (incl. re-offered refused blocks and reverse-order pairs) vs. reference model, state fingerprint and CheckDatabase; disk I/O errors at transaction begin",
         "At random points of random histories a key-holding forger submits the valid next block mutated in one header field, the signature, the transaction list or the signing key (23 mutation kinds); the node's verdict must match the model's (own textbook secp256k1), a rejected block must leave the logical content of every bolt bucket unchanged, an accepted block must be stored byte-for-byte with a signature that verifies over the stored header, and visor.CheckDatabase must pass at the end.",
         "Strict-mode (follower) nodes; the arbitrating publisher only receives its own blocks. Sampling."),
 "C05": ("exploration", "4.1, 5 C05", "seeded pool histories on a real publisher with an independent follower and selection oracle",
         "Pools with conflicts, soft/hard-invalid, stale and fat transactions; every block from CreateAndExecuteBlock must be accepted by a strict follower on the same chain, contain only eligible transactions, respect the size limit, be ordered by fee/kB then hash, contain no conflicting pair, and omit an eligible transaction only when an earlier one conflicts with it or the size limit cuts it.",
         "For transitive conflict chains only pairwise consistency is required (statement is silent). Sampling."),
 "C06": ("exploration", "4.1, 5 C06", "seeded interleavings of inject/block/refresh/remove-invalid/restart vs. reference pool model, with injected disk I/O errors",
         "Admission verdict and class (hard / soft-but-admitted / user) of every submission, pool content and validity flags after every step, refresh's newly-valid list and remove-invalid's removals are compared with the model; a refused submission must leave the database unchanged.",
         "Sampling; model trusted."),
 "C07": ("exploration", "4.1, 5 C07", "seeded ledger histories with all derived views recomputed from the reference model, with injected disk I/O errors",
         "After random steps: per-address unspent index, address count, metadata, confirmed and predicted balances, history of outputs (creating/spending block and transaction), per-address output history, transaction status, transaction count and block queries by seq/hash/range/last-N are compared with values derived from the model's chain and pool; restarts in the history exercise index/history re-initialisation.",
         "Paging not generated (C29). Balance queries while the pool holds a stale transaction may legitimately fail and are skipped."),
 "C08": ("fault_enumeration", "4.4, 5 C08", "crash-point enumeration over recorded bolt file images (deterministic simulation with fault injection)",
         "For each seeded life-cycle script every commit boundary is restarted from (exhaustive per script), plus states inside commits that bolt's write order can leave (ordered prefixes and subsets of dirty data pages, torn pages, torn meta page); restart runs the real start-up sequence with/without forced verification and reset, must return within one simulated hour (deadlocks are detected on the fake clock), must pass CheckDatabase, and after re-delivery of the script the logical database content must equal the never-crashed twin's.",
         "Disk model: ordered-prefix within the data phase, data phase strictly before the meta page (bolt's fdatasync order), file grown before pages are written. Crash during bolt's initial 4-page file creation is not modelled (stated in DESIGN). Follower node; scripts of 1-12 blocks."),
 "C17": ("exploration", "4.3, 5 C17", "seeded wallet operation histories with reload/lock faults, metamorphic one-batch oracle",
         "Deterministic, bip44 (with/without passphrase, external and change chain) and xpub wallets are driven through generate/scan/serialise+reload/lock+unlock sequences; after every step the entries must equal those of a fresh wallet that generated the same total in one batch, scanning must keep exactly the prefix up to the last active address, every entry must satisfy address=addr(pubkey) and pubkey=pub(seckey) under the harness' own curve code, and an xpub wallet must equal the external chain of the bip44 wallet of the same seed.",
         "Collection wallets have no derivation (only the entry-consistency part applies, exercised in C18/C19 runs). Real key generation with the repository's debug self-checks on is slow (~1 s per run), so quick runs are few."),
 "C18": ("exploration", "4.3, 5 C18", "simulated-disk content invariant, interleaved lock/unlock of other wallets, stored-byte corruption (bit-rot) and independently crafted length-lying ciphertexts",
         "For each seeded wallet and cipher: the locked serialisation and every byte string handed to the simulated disk while locked must not contain the seed, last seed, passphrase or any secret key (hex or raw); unlock with the password restores the identical wallet, three wrong passwords are rejected; then the stored secrets field is corrupted (bit flips, truncation, length-prefix edits, metadata edits, emptying) and load+unlock must return an error, never panic or yield different secrets.",
         "Partial: the whole space of ciphertext byte strings is a pure-input claim; corruptions whose scrypt parameters would allocate > 64 MiB are skipped and counted. Default scrypt work factor not exercised (1 GiB)."),
 "C19": ("exploration", "4.3, 5 C19", "seeded wallet-service histories with injected disk errors; memory vs. fresh-service reload after every step",
         "After every operation of a seeded service history (all operation kinds, wrong passwords, unknown ids, failing callbacks, duplicate seeds, temporary wallets; in half the runs a short-write disk error at a drawn step of a save) a fresh NewService on the directory must start and load exactly the non-temporary wallets held in memory, a failed operation must leave memory and the wallet files unchanged, and no two loaded wallets may share a fingerprint.",
         "One recorded known finding (create/unload/create of one seed leaves two files with one fingerprint). Unload is read as memory-only."),
 "C20": ("fault_enumeration", "4.3, 5 C20", "crash-prefix enumeration over the recorded file operations of every save, plus crash-recover-retry for the key-value storage",
         "For every wallet-service or key-value-storage operation that touches the disk, every prefix of the primitive file operations it issued (before each step, after open(O_TRUNC), writes cut at 1 / half / len-1 / a drawn offset, after each step, rename as one step) is materialised and a fresh service/manager must start on it and load, for every file, the previous or the new content.",
         "Ordered-write crash model as in the statement (no reordering across steps, rename atomic); effects of un-seamed calls (IsWritable) are captured by the directory snapshot at the first seamed step. The peers file uses the same SaveBinary path but is exercised only via kvstorage/wallet here."),
 "C10": ("exploration", "4.1, 5 C10", "byzantine relay tampering signed objects in flight between real nodes (deterministic simulation)",
         "In a simulated network of 2-3 real nodes a relay rewrites GIVT/GIVB frames in flight the way a key-less third party can (bit flips in outputs, signatures, inner hash and header fields, negated s, recovery-id variants, r high bit, appended bytes, length field, reordered inputs or transactions); afterwards every transaction in any pool and every block in any chain must be byte-identical to one an honest signer emitted, and every accepted signature must be low-s with recovery id < 4.",
         "Partial: the whole-domain claim over all keys and messages is input enumeration, outside this technique; here mutations ride on the signatures the workload happens to produce. Malleation checks on objects submitted directly (not relayed) are part of C04/C06."),
 "C22": ("exploration", "4.1, 5 C22", "phase 1: seeded message bursts with arbitrary chunking and malformed tails against the stepped receive path (E1); phase 2: the real read loop, receive queue and handler as goroutines under a tape-driven scheduler and the race detector (E2)",
         "A correctly introduced scripted peer writes bursts of 1-32 well-formed messages as one byte stream cut at tape-chosen offsets (including inside length prefixes, ids and later frames, and byte-by-byte); the node's replies must correspond one-to-one and in order to the messages sent; malformed tails (length below minimum / above the configured maximum, unknown id, undecodable body, trailing bytes, EOF mid-frame, noise) must disconnect with the matching reason and nothing after them may be processed; panics are violations.",
         "Phase 2 (40 % of the budget) runs the real readLoop, the 32-slot receive queue, the receive loop and sendLoop as goroutines on simulated connections under the E2 scheduler and the race detector: 1-2 well-behaved peers stream bursts cut at arbitrary offsets while the handler is scheduled like any other goroutine (decoded messages queue up while later reads arrive), optionally ending in one malformed frame; the delivered sequence must be exactly the sent one with intact content, nothing after the malformed frame, the matching disconnect reason, no disconnect of a well-formed stream, no race report. In phase 1 the receive path is stepped (hook H4: decodeData, convertToMessage, receiveMessage, handlers are the real code; the three per-connection goroutines and the 32-slot receive queue between them are not). Message delivery is observed through replies, so only reply-producing message types are distinguishable."),
 "C23": ("exploration", "4.1, 5 C23", "wire monitor on every frame and send error of real nodes in a simulated network; boundary-seeking workload incl. a small-limits profile with a hash-announcing peer",
         "With per-run knobs (maximum outgoing length from its legal minimum, response cap, request count) and a workload that packs the publisher's pool to the block size limit, every frame any node puts on the wire must fit the limit, no message a node built may be refused by its own send step as too long, and every GIVB answering a GETB must contain exactly the longest prefix of the requested blocks that fits (sizes from the harness' own encoder).",
         "Partial: daemon.New refuses limits below one maximum-size block, so GIVP truncation (peer lists are far smaller) and sub-minimum lengths stay pure-function space. With the size limits at their legal minimum (small-limits profile) GETT truncation is reached through a scripted peer announcing up to 256 unknown hashes and checked as longest fitting prefix; ANNT truncation is reached in the flood sub-profile (fan-out blocks every node starts with, 20-80 small transactions handed to one node, a late peer whose introduction makes the node announce all of them): every announcement but the last must carry min(per-message cap, what fits). GIVT prefix content is not compared (only that the frame fits and the send step accepts it)."),
 "C24": ("exploration", "4.1, 5 C24", "seeded connection-event histories against one real node (bookkeeping vs. the pool's live set after every event) plus direct event histories on the bookkeeping object alone",
         "Scripted peers on 3 IPs x 3 ports with mirrors in {0, own, A, B} and listen ports in {0, p, q, own}: incoming connects, outgoing attempts and their success/failure, introductions, other messages, disconnects, cull/stale/ping ticks; after every event the connection list must equal the connections the gnet pool really holds plus unresolved attempts, per-IP counts / IP+mirror registry / id map / listen-address map must be exactly what that list implies, state transitions must be legal, and after removing everything all five maps must be empty.",
         "A third of the runs drive the bookkeeping object alone (hook H5) with events the pool never produces (second connect for a held address, stale / foreign / zero ids, an introduced peer without listen port that stays, removals with a wrong id): a refused event must leave all maps untouched, an accepted one must change exactly its own entry, the secondary maps must be what the connection list implies. An incoming connection from exactly the address of a pending outgoing attempt (merged by the node) is kept out of the workload. Sampling."),
 "C25": ("exploration", "4.1, 5 C25", "scripted chaos peers with generated introductions and message orders against one real node",
         "Introductions with generated fields and extra bytes (wrong key, versions around the minimum, own mirror, parameters in and out of range, 8 user agents, truncated / extended / length-lying extras) and all other message types in any order on fresh and introduced connections: a connection may become introduced only if an independent predicate on the bytes sent holds, any non-{INTR, DISC, GIVP} message before introduction must disconnect and must not be processed (no reply of the corresponding kind), and no input may panic the node.",
         "The statement gives necessary conditions only; refusing a conforming introduction is counted, not flagged."),
 "C33": ("exploration", "4.1, 5 C33", "real follower fed by lossy, duplicating, reordering and forging scripted relays; safety, exactness and bounded catch-up",
         "The follower (real visor+bolt+daemon handlers) is connected only to scripted relays holding the real publisher's blocks: GIVB in order / overlapping / gapped / shuffled / repeated / with forged or re-signed blocks, ignored or short answers, arbitrary announcements, disconnects, chunked and duplicated frames. Every event: the follower's chain is a prefix of the publisher's, block for block and signature for signature; after each GIVB its head equals the order-aware model (skip known, stop at first failure); after each accepted batch and each higher announcement it requests blocks above its head; finally, fault-free with one honest full-chain peer, it reaches the publisher's head within 10 request periods.",
         "Relays are scripted actors, not real nodes (real-node relaying is exercised in C10/C23 runs). Sampling."),
 "C26": ("exploration", "4.5, 5 C26", "seeded peer-list operation histories with simulated days and reloads against an independent address validator",
         "A real pex.New with its real Run goroutine on the fake clock is driven through add / bulk-add (0-600 strings from 26 IP classes x 15 port classes x decorations) / remove / retry / port-flag / fill operations, clock advances of a minute to 30 days, and shutdown + reload; after every operation every listed address must pass an independent validator (dotted IPv4, not unspecified / multicast / link-local / broadcast, loopback only when allowed, port 1024-65535), a bulk add must never leave more than Max peers, and every configured trusted peer must be present and trusted.",
         "Address classes where definitions of 'global unicast' differ (0.0.0.0/8, 240/4, CGNAT) are not generated. The custom peers file (loaded without bound at start) is outside the statement and not exercised. The single-add path is observed but only bulk adds are judged against the bound, as stated."),
 "C27": ("exploration", "4.5, 5 C27", "seeded client sessions against the real API handler with the README as route/status specification, fake clock for token expiry",
         "Per run one API configuration (API-set subset, CSRF, header check, credentials, whitelist) and 20-60 requests over the 52 README-documented routes x 5 methods with token / Host / Origin / credential variants; whenever a stated condition fails (method not served, API set off, token missing / expired / tampered / forged / superseded, bad Host or Origin, wrong or boundary-shifted credentials) the response must carry the refusal status of one of the failing conditions (401 / 403 / 405).",
         "Two recorded known findings (superseded CSRF token still accepted; README vs. code API set of /api/v2/wallet/recover). Only the 'only if' direction is judged. Whether endpoint logic ran is inferred from the status code."),
 "C28": ("exploration", "4.5, 5 C28", "phase 1: generated and mutated requests against a live simulated node; phase 2: concurrent client goroutines through the real handler, wallet-service lock acquisitions scheduled by the tape (hang detection)",
         "Against a real node with chain, pool, wallets and kv data, 20-80 requests per run over every documented route and method with parameters taken from live state and mutated; a panic (reported with the function it happened in), a status outside 200-599, a declared-JSON body that does not parse, or a verify answer without verdict is a violation, and afterwards the node must still list a conserved unspent set.",
         "Phase 2 (35 % of the budget): 2-4 client goroutines send scripted wallet / balance / inject requests at the same time; every acquisition of the wallet service lock (hook H9: RWMutex semantics with durable blocking) and every gap between requests is a tape-chosen scheduling point; a request that never returns is a violation (needs reproduction in a fresh process to be reported). Only the wallet service lock is a scheduling point: interleavings inside the visor, bolt or the daemon gateway are not explored. Requests go through httptest into the real handler, so net/http's own server loop, timeouts and connection handling are not exercised; 'hang' is detected only as a deadlock of the bubble."),
 "C32": ("exploration", "4.2, 5 C32", "real pool goroutines under a tape-driven yield scheduler with the Go race detector (deterministic simulation with fault injection)",
         "The real ConnectionPool (Run and its accept loop, the strand goroutine, handleConnection with its read / send / receive loops, Connect, Shutdown) runs as real goroutines on simulated connections inside a synctest bubble, built with -race; every goroutine parks at yield points (top of every Strand call, every simulated network operation, every callback and handler, sendLoop's spin on a closed queue) and the choice tape decides who proceeds or whether the fake clock advances. 2-4 callers issue the public operations while peers write, split, stall, misbehave, close and reset and one goroutine calls Shutdown at a tape-chosen moment (sometimes before the pool listens). Checked: no race report; every call returns success, the pool-closed error or a documented error of that call; calls started after Shutdown returned get the pool-closed error; Shutdown and Run return; all five registries empty; every connection handed to the pool closed; no pool goroutine left; connect/disconnect callbacks pair up; peers only receive well-formed frames; per-connection delivery order. The park/release protocol uses no channel, mutex or atomic (norace memory + sleeping on the fake clock), so the scheduler itself adds no happens-before edge that could hide a race.",
         "Which case a select with several ready cases takes is the Go runtime's choice and is not controlled: schedules are replayed from the tape, violations that depend on that choice reproduce in a fraction of replays (the replay file records it, replay retries up to 10 times). Oracles only flag outcomes that are wrong under every resolution. The daemon above the pool is not part of these runs (callbacks and the message handler are harness code that never blocks). Race detection is the Go race detector's (happens-before, bounded history)."),
}

NA = {
 "C09": "pure function of the transaction bytes: no schedule, clock, fault or second party in the statement, so simulation would only be input generation renamed",
 "C10": "check not built yet in this session (planned: Byzantine relay in E1)",
 "C11": "pure function of (transaction, inputs, head time, parameters); nothing for a simulator to schedule or fault",
 "C12": "pure function of (offered outputs, request)",
 "C13": "pure function of (wallet, transaction, indexes)",
 "C14": "pure curve arithmetic; whole-domain claim needs proof or input enumeration, not simulation",
 "C15": "pure function of the string",
 "C16": "pure function of (entropy, path)",
 "C17": "check not built yet in this session (planned: E3 wallet histories)",
 "C18": "check not built yet in this session (planned: E3 disk-content invariant and bit-rot)",
 "C19": "check not built yet in this session (planned: E3 service histories)",
 "C20": "check not built yet in this session (planned: E3 crash-prefix enumeration)",
 "C21": "pure function of value / byte string (generated codecs vs reference encoder)",
 "C22": "check not built yet in this session (planned: gnet framing under seeded chunking)",
 "C23": "check not built yet in this session (planned: wire monitor in E1)",
 "C24": "check not built yet in this session (planned: E1 network event histories)",
 "C25": "check not built yet in this session (planned: chaos peers in E1)",
 "C26": "check not built yet in this session (planned: E6 pex histories)",
 "C27": "check not built yet in this session (planned: E5 api sessions)",
 "C28": "check not built yet in this session (planned: E5 requests on live node)",
 "C29": "pure function of (size, page, length)",
 "C30": "pure function (droplet text conversion)",
 "C31": "pure functions; the property itself asks for a proof over all 64-bit inputs",
 "C32": "check not built yet in this session (planned: E2 pool under yield scheduler + race detector)",
 "C33": "check not built yet in this session (planned: E1 follower sync)",
}

def main():
    for k in CLAIMED:
        NA.pop(k, None)
    commits = subprocess.run(["git", "-C", "/repo", "log", "--format=%H %s"], stdout=subprocess.PIPE, text=True).stdout.splitlines()
    hooks = [l.split()[0] for l in commits if " verif hook" in l]
    checks = []
    for pid, (level, ref, tech, text, note) in sorted(CLAIMED.items()):
        checks.append(dict(property_id=pid, quick_cmd="python3 check.py %s --tier quick" % pid, thorough_cmd="python3 check.py %s --tier thorough" % pid,
                           evidence_file="/verif/evidence/%s.json" % pid, replay_cmd_template="python3 check.py %s --replay {path}" % pid,
                           engine=ENGINE.get(pid, "e1"), level_claimed=dict(category=level, text=text, design_ref=ref), level_note=note, technique=tech))
    m = dict(version=1, setup_cmd="sh /verif/setup.sh",
             hooks=dict(guard="verif (Go build tag)", enable="go1.26.8 test -c -tags verif (harness module with replace github.com/skycoin/skycoin => /repo)",
                        baseline_off_cmd="cd /repo && go test -mod=mod -json -vet=off -count=1 -timeout 25m ./...",
                        source_commits=hooks, add_only=ADD_ONLY),
             engines=ENGINES, checks=checks,
             notes="All checks are deterministic simulations driven by one choice tape per run (VERIF_SEED -> per-run seeds); see DESIGN.md. Known findings: known_findings.json.",
             not_applicable=[dict(property_id=k, reason=v) for k, v in sorted(NA.items())])
    json.dump(m, open(os.path.join(V, "MANIFEST.json"), "w"), indent=1)
    print("claimed", len(checks), "not_applicable", len(NA))

ENGINE = {"C32": "e2", "C08": "e4 (in e1 binary)", "C26": "e6", "C27": "e5 (in e1 binary)", "C28": "e5 (in e1 binary)", "C17": "e3", "C18": "e3", "C19": "e3", "C20": "e3"}
ADD_ONLY = False  # H7 rewrites three call sites in util/file.SaveBinary (ioutil.WriteFile/os.Remove -> fsWriteFile/fsRemove); H8 rewrites two in gnet (net.Listen/net.DialTimeout -> netListen/netDialTimeout)
ENGINES = [
 dict(name="e2", path="/verif/harness/e2", serves_properties=["C32"],
      kind_free_text="the real gnet connection pool as real goroutines on simulated connections under the race detector; tape-driven yield scheduler whose park/release protocol adds no happens-before edges (hook H8)"),
 dict(name="e6", path="/verif/harness/e6", serves_properties=["C26"], kind_free_text="real peer list with its Run goroutine in a synctest bubble, seeded operation histories"),
 dict(name="e3", path="/verif/harness/e3", serves_properties=["C17", "C18", "C19", "C20"],
      kind_free_text="wallet service, wallet types and key-value storage on a simulated disk (hook H7): operation histories, disk-error injection, crash-prefix enumeration, bit-rot"),
 dict(name="e1", path="/verif/harness/e1", serves_properties=["C01", "C02", "C03", "C04", "C05", "C06", "C07", "C08", "C10", "C22", "C23", "C24", "C25", "C27", "C28", "C33"],
      kind_free_text="single-goroutine discrete-event simulation of 1-3 real nodes (visor+bolt, and for the network properties the daemon handlers and gnet pool stepped through hooks H4/H5 over simulated connections) on the synctest fake clock, shadowed by the reference ledger model"),
]

if __name__ == "__main__":
    main()
