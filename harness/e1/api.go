package e1

import (
	"bytes"
	"crypto/hmac"
	"crypto/sha256"
	"encoding/base64"
	"encoding/hex"
	"encoding/json"
	"fmt"
	"io/ioutil"
	"net/http"
	"net/http/httptest"
	"net/url"
	"os"
	"regexp"
	"runtime/debug"
	"sort"
	"strings"
	"sync"
	"time"

	"github.com/skycoin/skycoin/src/api"
	"github.com/skycoin/skycoin/src/cipher/bip44"
	"github.com/skycoin/skycoin/src/cipher/crypto"
	"github.com/skycoin/skycoin/src/kvstorage"
	"github.com/skycoin/skycoin/src/wallet"
	_ "github.com/skycoin/skycoin/src/wallet/bip44wallet"
	_ "github.com/skycoin/skycoin/src/wallet/collection"
	_ "github.com/skycoin/skycoin/src/wallet/deterministic"
	_ "github.com/skycoin/skycoin/src/wallet/xpubwallet"

	"verifsim/model"
	"verifsim/sim"
)

// Engine E5 "apisim": seeded client sessions against the real API handler
// (mux + middleware + endpoint handlers, hook H6) of a real node (visor + bolt
// + daemon + wallet service + key-value storage).  Requests go through
// httptest.ResponseRecorder; no socket is opened.

// apiHost is the address the web interface is configured with in the current run (C27 varies it).
var apiHost = "127.0.0.1:6420"

// route is one documented endpoint: parsed from src/api/README.md at check
// time, which serves as the specification independent of the mux.
type route struct {
	uri     string
	methods map[string]bool
	sets    []string // empty = "any"
	args    []string // parameter names documented under "Args:"
}

var (
	reURI    = regexp.MustCompile(`(?m)^URI: (/api/v[12]/[A-Za-z0-9_/]+)`)
	reMethod = regexp.MustCompile(`(?m)^Method: ([A-Z, ]+)`)
	reSets   = regexp.MustCompile(`(?m)^API sets: (.*)$`)
	reSet    = regexp.MustCompile("`([A-Z_]+)`")
	reArg    = regexp.MustCompile(`(?m)^\s+([a-z_]+):`)
)

func parseReadme() []route {
	repo := os.Getenv("VERIF_REPO")
	if repo == "" {
		repo = "/repo"
	}
	b, err := ioutil.ReadFile(repo + "/src/api/README.md")
	if err != nil {
		sim.Harnessf("read api README: %v", err)
	}
	s := string(b)
	var out []route
	for _, loc := range reURI.FindAllStringSubmatchIndex(s, -1) {
		uri := s[loc[2]:loc[3]]
		after := s[loc[1]:]
		if len(after) > 200 {
			after = after[:200]
		}
		mm := reMethod.FindStringSubmatch(after)
		if mm == nil {
			continue
		}
		before := s[:loc[0]]
		if len(before) > 400 {
			before = before[len(before)-400:]
		}
		sets := reSets.FindAllStringSubmatch(before, -1)
		if sets == nil {
			continue
		}
		r := route{uri: uri, methods: map[string]bool{}}
		for _, m := range strings.Split(mm[1], ",") {
			if m = strings.TrimSpace(m); m != "" {
				r.methods[m] = true
			}
		}
		for _, x := range reSet.FindAllStringSubmatch(sets[len(sets)-1][1], -1) {
			r.sets = append(r.sets, x[1])
		}
		// the documented parameters: the indented "name:" lines after "Args:" inside the same code block
		block := s[loc[1]:]
		if k := strings.Index(block, "```"); k >= 0 {
			block = block[:k]
		}
		if k := strings.Index(block, "Args:"); k >= 0 {
			for _, x := range reArg.FindAllStringSubmatch(block[k+len("Args:"):], -1) {
				r.args = append(r.args, x[1])
			}
		}
		out = append(out, r)
	}
	sort.Slice(out, func(i, j int) bool { return out[i].uri < out[j].uri })
	return out
}

var allSets = []string{"READ", "STATUS", "TXN", "WALLET", "NET_CTRL", "INSECURE_WALLET_SEED", "STORAGE"}

type apiNode struct {
	c           *sim.Ctx
	w           *world
	ns          *netSim
	n           *netNode
	wallets     *wallet.Service
	kv          *kvstorage.Manager
	h           http.Handler
	cfg         api.Config
	walletNames []string
	chain       []model.Block
}

func newAPINode(c *sim.Ctx, cfg api.Config, blocks int) *apiNode {
	a := &apiNode{c: c, cfg: cfg}
	bc := bip44.CoinTypeSkycoin
	wdir := c.Dir + "/wallets"
	w := newWorld(c, 0, worldOpts{hugeWeight: 0, before: func(w *world) {
		// the visor needs the wallet service it gateways
		var err error
		a.wallets, err = wallet.NewService(wallet.Config{WalletDir: wdir, CryptoType: crypto.CryptoTypeSha256Xor, EnableWalletAPI: true, EnableSeedAPI: true, Bip44Coin: &bc})
		if err != nil {
			sim.Harnessf("wallet service: %v", err)
		}
		w.wltServ = a.wallets
	}})
	a.w = w
	if blocks > 0 {
		a.chain = buildChain(c, w, blocks)
	}
	// leave something in the pool, including a stale entry when possible
	for i := 0; i < 3; i++ {
		if tx, ok := w.mkSpend(w.nodes[0].m, false); ok {
			if _, _, err := w.nodes[0].v.InjectForeignTransaction(cTxn(&tx)); err == nil {
				w.nodes[0].m.InjectForeign(&tx, w.nodes[0].m.Cfg.Unconfirmed)
			}
		}
	}
	a.ns = newNetSim(c, w)
	a.ns.drawKnobs(false)
	a.n = a.ns.addDaemon(w.nodes[0], "10.0.0.1", 6000, 0xAAAA)
	var err error
	for i, typ := range []string{wallet.WalletTypeDeterministic, wallet.WalletTypeDeterministic} {
		o := wallet.Options{Type: typ, Label: fmt.Sprintf("w%d", i), Seed: fmt.Sprintf("api seed %d", i), CryptoType: crypto.CryptoTypeSha256Xor, GenerateN: 2}
		if i == 1 {
			o.Encrypt, o.Password = true, []byte("pw")
		}
		wl, err := a.wallets.CreateWallet(fmt.Sprintf("api%d.wlt", i), o)
		if err != nil {
			sim.Harnessf("create wallet: %v", err)
		}
		a.walletNames = append(a.walletNames, wl.Filename())
	}
	a.kv, err = kvstorage.NewManager(kvstorage.Config{StorageDir: c.Dir + "/kv", EnableStorageAPI: true, EnabledStorages: []kvstorage.Type{kvstorage.TypeTxIDNotes, kvstorage.TypeGeneral}})
	if err != nil {
		sim.Harnessf("kvstorage: %v", err)
	}
	_ = a.kv.AddStorageValue(kvstorage.TypeGeneral, "k1", "v1")
	gw := api.NewGateway(a.n.dm, w.nodes[0].v, a.wallets, a.kv)
	a.h, err = api.VerifNewHandler(apiHost, cfg, gw)
	if err != nil {
		sim.Harnessf("api handler: %v", err)
	}
	return a
}

func (a *apiNode) close() {
	a.ns.shutdown()
	a.w.closeAll()
}

type apiReq struct {
	method, uri, query, body, ctype string
	host, origin, referer, token    string
	user, pass                      string
	hasAuth                         bool
}

type apiResp struct {
	status   int
	body     []byte
	ctype    string
	panicked interface{}
	where    string
}

// panicSite returns the first function of the code under test on a panic stack.
func panicSite(stack string) string {
	lines := strings.Split(stack, "\n")
	seenPanic := false
	for _, l := range lines {
		if strings.HasPrefix(l, "panic(") {
			seenPanic = true
			continue
		}
		if seenPanic && strings.Contains(l, "github.com/skycoin/skycoin/src/") && !strings.HasPrefix(l, "\t") {
			f := l[strings.Index(l, "skycoin/skycoin/src/")+len("skycoin/skycoin/src/"):]
			if i := strings.LastIndex(f, "("); i > 0 {
				f = f[:i]
			}
			return f
		}
	}
	return "unknown"
}

// A request that computes for ever cannot be seen from inside the bubble (simulated time only passes while every
// goroutine is blocked) and cannot be stopped.  apiWatchdog runs outside every bubble on the real clock: a request
// that is still being served after hangAfter of real time is reported as a hang (the slowest legitimate requests -
// encrypting a wallet - take well under a second) and the worker process ends with the run recorded.
const hangAfter = 45 * time.Second

var reqWatch struct {
	mu     sync.Mutex
	active bool
	start  time.Time
	c      *sim.Ctx
	desc   string
	sig    string
}

func apiWatchdog() {
	for {
		time.Sleep(time.Second)
		reqWatch.mu.Lock()
		if !reqWatch.active || sim.WallNow().Sub(reqWatch.start) < hangAfter {
			reqWatch.mu.Unlock()
			continue
		}
		c, desc, sig := reqWatch.c, reqWatch.desc, reqWatch.sig
		reqWatch.active = false
		reqWatch.mu.Unlock()
		c.Logf("no response to %s after %v of real time", desc, hangAfter)
		if !c.KnownHit("request-hangs", sig, "%s has not been answered after %v of real time (the handler is still computing)", desc, hangAfter) {
			c.Violate("request-hangs", sig, "%s has not been answered after %v of real time (the handler is still computing)", desc, hangAfter)
		}
		if c.Bail == nil {
			sim.Harnessf("a request hangs and the run cannot be ended")
		}
		c.Bail()
	}
}

// hangSignature names a request that does not return: the route and the count parameters it carries.
func hangSignature(q apiReq) string {
	vals, _ := url.ParseQuery(q.query)
	if b, err := url.ParseQuery(q.body); err == nil {
		for k, v := range b {
			vals[k] = v
		}
	}
	var big []string
	for _, k := range []string{"num", "scan", "n"} {
		if v := vals.Get(k); len(v) >= 7 {
			big = append(big, k+"=huge")
		}
	}
	sort.Strings(big)
	return q.method + " " + q.uri + " " + strings.Join(big, ",")
}

func (a *apiNode) do(q apiReq) (resp apiResp) {
	reqWatch.mu.Lock()
	reqWatch.active, reqWatch.start, reqWatch.c = true, sim.WallNow(), a.c
	reqWatch.desc = fmt.Sprintf("%s %s (query %q, body %q)", q.method, q.uri, trunc(q.query, 200), trunc(q.body, 200))
	reqWatch.sig = hangSignature(q)
	reqWatch.mu.Unlock()
	defer func() {
		reqWatch.mu.Lock()
		reqWatch.active = false
		reqWatch.mu.Unlock()
	}()
	target := q.uri
	if q.query != "" {
		target += "?" + q.query
	}
	r := httptest.NewRequest(q.method, target, strings.NewReader(q.body))
	r.Host = q.host
	if q.ctype != "" {
		r.Header.Set("Content-Type", q.ctype)
	}
	if q.origin != "" {
		r.Header.Set("Origin", q.origin)
	}
	if q.referer != "" {
		r.Header.Set("Referer", q.referer)
	}
	if q.token != "" {
		r.Header.Set("X-CSRF-Token", q.token)
	}
	if q.hasAuth {
		r.SetBasicAuth(q.user, q.pass)
	}
	rec := httptest.NewRecorder()
	func() {
		defer func() {
			if p := recover(); p != nil {
				resp.panicked = p
				resp.where = panicSite(string(debug.Stack()))
			}
		}()
		a.h.ServeHTTP(rec, r)
	}()
	resp.status = rec.Code
	resp.body = rec.Body.Bytes()
	resp.ctype = rec.Header().Get("Content-Type")
	if rec.Header().Get("Content-Encoding") == "gzip" {
		resp.body = nil // compressed: not inspected
	}
	return
}

func (a *apiNode) newToken() string {
	r := a.do(apiReq{method: "GET", uri: "/api/v1/csrf", host: apiHost, hasAuth: a.cfg.Username != "" || a.cfg.Password != "", user: a.cfg.Username, pass: a.cfg.Password})
	var m map[string]string
	if r.status != 200 || json.Unmarshal(r.body, &m) != nil {
		return ""
	}
	return m["csrf_token"]
}

// ---- C27 ---------------------------------------------------------------------------

func runAccess(c *sim.Ctx) {
	t := c.T
	routes := parseReadme()
	if len(routes) < 40 {
		sim.Harnessf("only %d routes parsed from the API README", len(routes))
	}
	cfg := api.Config{EnabledAPISets: map[string]struct{}{}, DisableCSP: true}
	for _, s := range allSets {
		if t.Chance("api-set-"+s, 1, 2) {
			cfg.EnabledAPISets[s] = struct{}{}
		}
	}
	cfg.DisableCSRF = t.Chance("disable-csrf", 1, 5)
	cfg.DisableHeaderCheck = t.Chance("disable-header-check", 1, 5)
	if t.Chance("credentials", 1, 2) {
		long := strings.Repeat("0123456789abcdef", 4) // 64 bytes: what `openssl rand -base64 64` style secrets exceed
		cfg.Username, cfg.Password = []string{"ab", "user", "a", long + "-operator"}[t.Pick("user", 3, 3, 3, 1)], []string{"c", "secret", "bc", long + "Zm9vYmFyYmF6cXV4", long}[t.Pick("pass", 3, 3, 3, 2, 1)]
	}
	if t.Chance("host-whitelist", 1, 3) {
		cfg.HostWhitelist = []string{"wallet.example:8080"}
	}
	// the interface the server is bound to: loopback (the Host header is checked against DNS rebinding), or a
	// public one (the Host header is not checked there, Origin / Referer still are)
	apiHost = []string{"127.0.0.1:6420", "192.168.1.10:6420", "0.0.0.0:6420"}[t.Pick("api-interface", 3, 1, 1)]
	defer func() { apiHost = "127.0.0.1:6420" }()
	hostIsLocal := strings.HasPrefix(apiHost, "127.")
	if !hostIsLocal {
		c.Count("mode.public_interface")
	}
	a := newAPINode(c, cfg, 1+t.Int("api-blocks", 2))
	defer a.close()
	n := t.Range("api-requests", 20, 60)
	c.Sample = append(c.Sample, fmt.Sprintf("api sets %v csrf=%v headers=%v credentials=%v, %d requests over %d documented routes", keysOf(cfg.EnabledAPISets), !cfg.DisableCSRF, !cfg.DisableHeaderCheck, cfg.Username != "", n, len(routes)))
	var current, superseded, expired string
	var expiredAt time.Time
	if !cfg.DisableCSRF && t.Chance("fresh-node-forgery", 1, 3) {
		// an outsider's first move against a node that has not issued any token yet: a state-changing request,
		// everything else in order, carrying a well-formed token signed with a guessable key
		var cand []route
		for _, rt := range routes {
			on := len(rt.sets) == 0
			for _, s := range rt.sets {
				if _, ok := cfg.EnabledAPISets[s]; ok {
					on = true
				}
			}
			if on && rt.methods["POST"] && rt.uri != "/api/v1/csrf" {
				cand = append(cand, rt)
			}
		}
		if len(cand) > 0 {
			rt := cand[t.Int("fresh-route", len(cand))]
			q := apiReq{method: "POST", uri: rt.uri, host: apiHost, token: forgeToken(t.Int("fresh-key", 3))}
			if strings.HasPrefix(rt.uri, "/api/v2/") {
				q.ctype, q.body = "application/json", "{}"
			} else {
				q.ctype = "application/x-www-form-urlencoded"
			}
			if cfg.Username != "" || cfg.Password != "" {
				q.hasAuth, q.user, q.pass = true, cfg.Username, cfg.Password
			}
			resp := a.do(q)
			c.Count("fault.forged_token_before_first_issue")
			c.Count("probe.refusal_expected")
			c.Logf("fresh-node forgery POST %s -> %d", rt.uri, resp.status)
			if resp.panicked != nil {
				c.Violate("handler-panic", rt.uri, "POST %s panicked: %v", rt.uri, resp.panicked)
				return
			}
			if resp.status != 403 {
				c.Violate("access-control-bypassed", "csrf", "POST %s with a token signed with a guessable key, sent before the node issued any token, was answered %d instead of 403", rt.uri, resp.status)
				return
			}
		}
	}
	for c.Step = 1; c.Step <= n && !c.Failed(); c.Step++ {
		rt := routes[t.Int("route", len(routes))]
		method := []string{"GET", "POST", "PUT", "DELETE", "HEAD"}[t.Pick("method", 6, 6, 1, 2, 1)]
		q := apiReq{method: method, uri: rt.uri, host: apiHost}
		if strings.HasPrefix(rt.uri, "/api/v2/") && method != "GET" {
			q.ctype, q.body = "application/json", "{}"
		} else if method == "POST" {
			q.ctype = "application/x-www-form-urlencoded"
		}
		failing := map[string]bool{}
		// credentials
		needAuth := cfg.Username != "" || cfg.Password != ""
		if needAuth {
			switch t.Pick("auth", 6, 2, 2, 2, 1, 3) {
			case 5: // near misses: one credential agrees with the configured one on a long prefix only, or is padded
				u, pw := cfg.Username, cfg.Password
				near := func(v string) string {
					switch t.Pick("near-miss", 2, 2, 2, 1, 1) {
					case 0: // tail differs
						if len(v) > 1 {
							return v[:len(v)-1] + string(v[len(v)-1]^1)
						}
						return v + "~"
					case 1: // cut short (to 64 bytes when longer)
						if len(v) > 64 {
							return v[:64]
						}
						if len(v) > 1 {
							return v[:len(v)-1]
						}
						return ""
					case 2: // NUL bytes appended
						return v + "\x00"
					case 3: // extended
						return v + v
					}
					return strings.ToUpper(v) + "!"
				}
				if t.Bool("near-miss-user") {
					u = near(u)
				} else {
					pw = near(pw)
				}
				q.hasAuth, q.user, q.pass = true, u, pw
				if u != cfg.Username || pw != cfg.Password {
					failing["auth"] = true
					c.Count("fault.credentials_near_miss")
				}
			case 0:
				q.hasAuth, q.user, q.pass = true, cfg.Username, cfg.Password
			case 1:
				failing["auth"] = true
			case 2:
				q.hasAuth, q.user, q.pass = true, cfg.Username, cfg.Password+"x"
				failing["auth"] = true
			case 3: // boundary between user and password shifted
				up := cfg.Username + cfg.Password
				k := t.Int("split", len(up)+1)
				q.hasAuth, q.user, q.pass = true, up[:k], up[k:]
				if q.user != cfg.Username || q.pass != cfg.Password {
					failing["auth"] = true
					c.Count("fault.credentials_boundary_shifted")
				}
			case 4:
				q.hasAuth, q.user, q.pass = true, cfg.Username, ""
				if cfg.Password != "" {
					failing["auth"] = true
				}
			}
		}
		// host / origin
		headerCheck := !cfg.DisableHeaderCheck
		switch t.Pick("host", 8, 2, 2, 1) {
		case 1:
			q.host = "localhost:6420"
		case 2:
			q.host = "evil.example:6420"
			if headerCheck && hostIsLocal {
				failing["host"] = true
			}
		case 3:
			q.host = "wallet.example:8080"
			if headerCheck && hostIsLocal && len(cfg.HostWhitelist) == 0 {
				failing["host"] = true
			}
		}
		switch t.Pick("origin", 8, 2, 2, 1, 1, 1, 1, 1) {
		case 1:
			q.origin = "http://" + apiHost
		case 2:
			q.origin = "http://evil.example"
			if headerCheck {
				failing["origin"] = true
			}
		case 3:
			q.referer = "http://evil.example/page"
			if headerCheck {
				failing["origin"] = true
			}
		case 4:
			q.origin = "http://wallet.example:8080"
			if headerCheck && len(cfg.HostWhitelist) == 0 {
				failing["origin"] = true
			}
		case 5: // opaque origin (sandboxed frame, data: URL): a present, unacceptable Origin header
			q.origin = "null"
			if headerCheck {
				failing["origin"] = true
				c.Count("fault.opaque_origin")
			}
		case 6: // Origin is checked first: a foreign Origin is not rescued by an acceptable Referer
			q.origin = []string{"null", "http://evil.example"}[t.Int("origin6", 2)]
			q.referer = "http://" + apiHost + "/page"
			if headerCheck {
				failing["origin"] = true
			}
		case 7: // malformed
			q.origin = []string{"http://%zz", "://", "http//" + apiHost, apiHost}[t.Int("origin7", 4)]
			if headerCheck {
				failing["origin"] = true
			}
		}
		// token
		stateChanging := method == "POST" || method == "PUT" || method == "DELETE"
		if stateChanging && rt.uri != "/api/v1/csrf" {
			switch t.Pick("token", 6, 2, 2, 2, 2, 1, 2) {
			case 6: // used successfully late in its life, then presented again after it has expired
				tk := a.newToken()
				if tk == "" {
					if !cfg.DisableCSRF {
						failing["undecided"] = true
					}
					break
				}
				d1 := time.Duration(10+t.Int("token-first-use-age", 19)) * time.Second
				time.Sleep(d1)
				q0 := apiReq{method: q.method, uri: q.uri, host: apiHost, ctype: q.ctype, body: q.body, token: tk}
				if needAuth {
					q0.hasAuth, q0.user, q0.pass = true, cfg.Username, cfg.Password
				}
				r0 := a.do(q0)
				d2 := 31*time.Second - d1 + time.Duration(t.Int("token-after-expiry", 8))*time.Second
				time.Sleep(d2)
				c.SimNanos += int64(d1 + d2)
				c.Count("fault.token_used_then_expired")
				c.Logf("token used at age %v (-> %d), presented again at age %v", d1, r0.status, d1+d2)
				q.token = tk
				if !cfg.DisableCSRF {
					failing["csrf"] = true
				}
			case 0:
				superseded = current
				current = a.newToken()
				q.token = current
				if current == "" && !cfg.DisableCSRF {
					failing["undecided"] = true
				}
			case 1: // none
				if !cfg.DisableCSRF {
					failing["csrf"] = true
				}
			case 2: // expired: 31 simulated seconds after it was issued
				if expired == "" {
					expired = a.newToken()
					expiredAt = time.Now().Add(31 * time.Second)
				}
				if time.Now().Before(expiredAt) {
					time.Sleep(time.Until(expiredAt))
					c.SimNanos += int64(31 * time.Second)
					c.Count("fault.clock_advance_past_token_expiry")
				}
				q.token = expired
				if !cfg.DisableCSRF {
					failing["csrf"] = true
				}
			case 3: // superseded by a later token
				// both issued just now, so the superseded one cannot have expired as well
				superseded = a.newToken()
				current = a.newToken()
				q.token = superseded
				if !cfg.DisableCSRF && superseded != "" {
					failing["csrf-superseded"] = true
					c.Count("fault.superseded_token")
				}
				// it may also have expired meanwhile: then the plain csrf rule applies
			case 4: // tampered
				tk := a.newToken()
				if tk != "" {
					b := []byte(tk)
					b[t.Int("tamper-token", len(b))] ^= 1
					q.token = string(b)
				} else {
					q.token = "x.y"
				}
				if !cfg.DisableCSRF {
					failing["csrf"] = true
				}
			case 5: // forged: zero signature, or a correctly formed token signed with a key an outsider can guess
				if k := t.Int("forge-key", 4); k > 0 {
					q.token = forgeToken(k - 1)
					c.Count("fault.forged_token_guessable_key")
				} else {
					payload := base64.RawURLEncoding.EncodeToString([]byte(`{"Nonce":"AAAA","ExpiresAt":"2099-01-01T00:00:00Z"}`))
					q.token = payload + "." + base64.RawURLEncoding.EncodeToString(make([]byte, 32))
				}
				if !cfg.DisableCSRF {
					failing["csrf"] = true
				}
			}
		}
		// method and API set, from the README
		if !rt.methods[method] {
			failing["method"] = true
		}
		if len(rt.sets) > 0 {
			on := false
			for _, s := range rt.sets {
				if _, ok := cfg.EnabledAPISets[s]; ok {
					on = true
				}
			}
			if !on {
				failing["apiset"] = true
			}
		}
		if rt.uri == "/api/v1/csrf" && cfg.DisableCSRF {
			failing["undecided"] = true
		}
		if failing["csrf-superseded"] && len(failing) > 1 {
			// judged in isolation only: together with other failing conditions those decide the refusal
			delete(failing, "csrf-superseded")
		}
		resp := a.do(q)
		names := make([]string, 0, len(failing))
		for k := range failing {
			names = append(names, k)
		}
		sort.Strings(names)
		c.Kind(byte(len(names)), resp.status < 400)
		c.Logf("%s %s host=%s origin=%s%s token=%d auth=%v -> %d (failing: %v)", method, rt.uri, q.host, q.origin, q.referer, len(q.token), q.hasAuth, resp.status, names)
		if resp.panicked != nil {
			c.Violate("handler-panic", rt.uri, "%s %s panicked: %v", method, rt.uri, resp.panicked)
			return
		}
		if failing["undecided"] || len(failing) == 0 {
			continue
		}
		// documented refusal statuses of the failing conditions
		okStatus := map[int]bool{}
		for k := range failing {
			switch k {
			case "auth":
				okStatus[401] = true
			case "method":
				okStatus[405] = true
			default:
				okStatus[403] = true
			}
		}
		c.Count("probe.refusal_expected")
		if !okStatus[resp.status] {
			sig := strings.Join(names, "+")
			if failing["apiset"] || failing["method"] {
				// route-specific conditions: the finding is about this route
				sig += " " + rt.uri
			}
			c.Violate("access-control-bypassed", sig, "%s %s with failing condition(s) %v was answered %d instead of a refusal (%v); host=%q origin=%q referer=%q user=%q pass=%q", method, rt.uri, names, resp.status, statusList(okStatus), q.host, q.origin, q.referer, q.user, q.pass)
			return
		}
	}
}

// forgeToken builds a token of the documented shape (base64url(JSON{Nonce,ExpiresAt}) "." base64url(HMAC-SHA256))
// signed with a key that needs no knowledge of the node: empty, all-zero of the secret's length, or a constant.
func forgeToken(kind int) string {
	key := [][]byte{nil, make([]byte, 64), []byte("secret")}[kind%3]
	js := []byte(`{"Nonce":"` + base64.StdEncoding.EncodeToString(make([]byte, 64)) + `","ExpiresAt":"2099-01-01T00:00:00Z"}`)
	h := hmac.New(sha256.New, key)
	h.Write(js)
	return base64.RawURLEncoding.EncodeToString(js) + "." + base64.RawURLEncoding.EncodeToString(h.Sum(nil))
}

func statusList(m map[int]bool) []int {
	var l []int
	for k := range m {
		l = append(l, k)
	}
	sort.Ints(l)
	return l
}

func keysOf(m map[string]struct{}) []string {
	var l []string
	for k := range m {
		l = append(l, k)
	}
	sort.Strings(l)
	return l
}

// ---- C28 ---------------------------------------------------------------------------

func runAPICrash(c *sim.Ctx) {
	t := c.T
	routes := parseReadme()
	cfg := api.Config{EnabledAPISets: map[string]struct{}{}, DisableCSP: true, DisableCSRF: true, DisableHeaderCheck: true}
	for _, s := range allSets {
		cfg.EnabledAPISets[s] = struct{}{}
	}
	a := newAPINode(c, cfg, 2+t.Int("api-blocks", 5))
	defer a.close()
	pub := a.w.nodes[0]
	// peers may hand the node rival spends of one output: both sit in the pool until a block decides
	var rivalOf []string
	if ids := a.w.ownedUnspents(pub.m); len(ids) > 0 && t.Chance("rival-spends", 2, 3) {
		id := ids[t.Int("rival-output", len(ids))]
		u := pub.m.Unspent[id]
		if h, ov, inter := model.AccruedHours(u, pub.m.Head().Head.Time); !ov && !inter && h.IsUint64() && h.Uint64() >= 4 {
			n := 2 + t.Int("rival-count", 2)
			for k := 0; k < n; k++ {
				burn := uint64(pub.m.Cfg.Unconfirmed.BurnFactor)
				fee := (h.Uint64() + burn - 1) / burn
				tx, ok := a.w.mkSpendOf(pub.m, []model.Hash{id}, h.Uint64()-fee-uint64(k)%(h.Uint64()-fee+1))
				if !ok {
					break
				}
				if _, _, err := pub.v.InjectForeignTransaction(cTxn(&tx)); err == nil {
					pub.m.InjectForeign(&tx, pub.m.Cfg.Unconfirmed)
					c.Count("fault.rival_spends_pooled")
				}
			}
			rivalOf = append(rivalOf, hex.EncodeToString(id[:]), addrString(a.w, u.Addr))
		}
	}
	// live material for parameters
	var addrs, uxids, txids, rawtxs []string
	for _, k := range a.w.clients {
		addrs = append(addrs, k.addr.String())
	}
	addrs = append(addrs, a.w.genKey.addr.String(), "notanaddress", "")
	for id := range pub.m.Created {
		uxids = append(uxids, hex.EncodeToString(id[:]))
	}
	sort.Strings(uxids)
	for h := range pub.m.TxnSeq {
		txids = append(txids, hex.EncodeToString(h[:]))
	}
	for h := range pub.m.Pool {
		txids = append(txids, hex.EncodeToString(h[:]))
	}
	sort.Strings(txids)
	txids = append(txids, strings.Repeat("ab", 32), "zz", "")
	// raw transactions: pooled, confirmed (inputs spent), spending a spent output with an unknown id, malformed
	for _, h := range pub.m.PoolHashes() {
		tx := pub.m.Pool[h].Txn
		rawtxs = append(rawtxs, hex.EncodeToString(tx.Encode()))
	}
	for i := range a.chain {
		for j := range a.chain[i].Txns {
			tx := a.chain[i].Txns[j]
			rawtxs = append(rawtxs, hex.EncodeToString(tx.Encode()))
			// same inputs (now spent), different outputs: an unknown transaction spending spent outputs
			alt := tx
			alt.Out = append([]model.Out{}, tx.Out...)
			if alt.Out[0].Hours > 0 {
				alt.Out[0].Hours--
			} else {
				alt.Out[0].Hours++
			}
			a.w.sign(pub.m, &alt)
			rawtxs = append(rawtxs, hex.EncodeToString(alt.Encode()))
		}
	}
	// extreme amounts on transactions whose inputs the node knows (unspent: pooled; spent: confirmed)
	extreme := func(tx model.Txn) {
		for _, v := range []uint64{1 << 63, ^uint64(0), 0, 1<<63 - 1} {
			alt := tx
			alt.Out = append([]model.Out{}, tx.Out...)
			k := int(v % uint64(len(alt.Out)))
			alt.Out[k].Coins = v
			if v&1 == 1 {
				alt.Out[k].Hours = ^uint64(0)
			}
			a.w.sign(pub.m, &alt)
			rawtxs = append(rawtxs, hex.EncodeToString(alt.Encode()))
		}
	}
	if hs := pub.m.PoolHashes(); len(hs) > 0 {
		extreme(pub.m.Pool[hs[0]].Txn)
	}
	if len(a.chain) > 0 && len(a.chain[len(a.chain)-1].Txns) > 0 {
		extreme(a.chain[len(a.chain)-1].Txns[0])
	}
	rawtxs = append(rawtxs, "00", "zz", "", strings.Repeat("00", 37))
	n := t.Range("api-requests", 20, 80)
	c.Sample = append(c.Sample, fmt.Sprintf("chain of %d blocks, pool %d, %d requests over %d routes", len(a.chain), len(pub.m.Pool), n, len(routes)))
	pick := func(l []string, label string) string { return l[t.Int(label, len(l))] }
	for c.Step = 1; c.Step <= n && !c.Failed(); c.Step++ {
		rt := routes[t.Int("route", len(routes))]
		method := "GET"
		if rt.methods["POST"] && (!rt.methods["GET"] || t.Bool("post")) {
			method = "POST"
		}
		if rt.methods["DELETE"] && t.Chance("delete", 1, 4) {
			method = "DELETE"
		}
		if t.Chance("odd-method", 1, 15) {
			method = []string{"PUT", "PATCH", "HEAD", "OPTIONS"}[t.Int("odd-method-i", 4)]
		}
		vals := url.Values{}
		jsonBody := map[string]interface{}{}
		addParam := func(k, v string) {
			vals.Add(k, v)
			jsonBody[k] = v
		}
		// Half of the requests carry the parameters the README documents for the route (most of them; numbers at and
		// around what the live state makes meaningful: heights at, just below and far above the head); the others
		// carry an arbitrary third of all parameter names.
		paramNames := []string{"addrs", "address", "hashes", "uxid", "txid", "id", "seq", "hash", "start", "end", "num", "verbose", "confirmed", "rawtx", "encoded_transaction", "password", "label", "seed", "type", "key", "val", "page", "limit", "sort", "encoded", "scan", "n", "ignore_unconfirmed", "unsigned", "wallet_id", "seqs"}
		documented := len(rt.args) > 0 && t.Bool("documented-args")
		if documented {
			paramNames = rt.args
			c.Count("probe.request_with_documented_parameters")
		}
		headSeq := uint64(len(a.chain))
		for _, p := range paramNames {
			if documented {
				if !t.Chance("doc-param-"+p, 3, 4) {
					continue
				}
				switch p {
				case "num", "n", "scan":
					if strings.Contains(rt.uri, "/wallet") && !t.Chance("doc-count-huge", 1, 100) {
						// how many addresses to make or to scan: small numbers; the astronomically large ones are a recorded
						// finding (the request never returns) and each occurrence costs the run, so they are drawn rarely
						addParam(p, []string{"0", "1", "2", "3", "20", "100"}[t.Pick("doc-count", 1, 3, 2, 2, 1, 1)])
						continue
					}
				}
				switch p {
				case "seq", "start", "end", "num", "n", "page", "limit", "scan":
					addParam(p, []string{"0", "1", "2", fmt.Sprint(headSeq), fmt.Sprint(headSeq + 1), fmt.Sprint(headSeq - 1), "4294967295", "4294967296", "9223372036854775807", "9223372036854775808", "18446744073709551615", "18446744073709551614"}[t.Pick("doc-num", 3, 4, 3, 3, 2, 2, 1, 1, 2, 2, 3, 1)])
					continue
				}
			} else if !t.Chance("param-"+p, 1, 3) {
				continue
			}
			if p == "seqs" {
				var l []string
				for k := 0; k < 1+t.Int("seqs-n", 4); k++ {
					l = append(l, []string{"0", "1", fmt.Sprint(headSeq), fmt.Sprint(headSeq + 1), "18446744073709551615", "x", "1", ""}[t.Pick("seqs-v", 3, 3, 2, 1, 1, 1, 1, 1)])
				}
				addParam(p, strings.Join(l, ","))
				continue
			}
			var v string
			switch p {
			case "addrs", "address":
				v = pick(addrs, "addr")
				if t.Bool("two-addrs") {
					v += "," + pick(addrs, "addr")
				}
			case "hashes", "uxid", "hash":
				v = pick(append(uxids, "00", ""), "uxid")
			case "txid":
				v = pick(txids, "txid")
			case "id", "wallet_id":
				v = pick(append(a.walletNames, "nope.wlt", "", "../x.wlt", pick(addrs, "addr")), "id")
				if documented && t.Chance("doc-valid-wallet", 3, 4) {
					v = pick(a.walletNames, "doc-wallet")
				}
			case "rawtx", "encoded_transaction":
				v = pick(rawtxs, "rawtx")
				if t.Chance("truncate-rawtx", 1, 5) && len(v) > 4 {
					v = v[:2*t.Int("rawtx-cut", len(v)/2)]
				}
			case "seq", "start", "end", "num", "page", "limit", "scan", "n":
				v = []string{"0", "1", "2", "100", "-1", "18446744073709551615", "18446744073709551616", "abc", "", "1e3"}[t.Int("num-val", 10)]
			case "verbose", "confirmed", "encoded", "ignore_unconfirmed", "unsigned":
				v = []string{"1", "0", "true", "false", "maybe", ""}[t.Int("bool-val", 6)]
			case "type":
				v = []string{"deterministic", "bip44", "xpub", "collection", "client", "txid", "zzz", ""}[t.Int("type-val", 8)]
			case "sort":
				v = []string{"asc", "desc", "up", ""}[t.Int("sort-val", 4)]
			default:
				v = []string{"x", "pw", "", strings.Repeat("y", 300), "\xff\xfe", "k1"}[t.Int("str-val", 6)]
				if documented && p == "password" {
					v = []string{"pw", "", "wrong"}[t.Pick("doc-password", 2, 2, 1)]
				}
			}
			addParam(p, v)
		}
		q := apiReq{method: method, uri: rt.uri, host: apiHost}
		if (rt.uri == "/api/v2/transaction" || rt.uri == "/api/v1/wallet/transaction") && method == "POST" && t.Chance("well-formed-create-txn", 2, 3) {
			// a request of the documented shape, built from live state
			body := map[string]interface{}{
				"hours_selection":    []interface{}{map[string]string{"type": "auto", "mode": "share", "share_factor": []string{"0.5", "0", "1", "1.5", "x"}[t.Pick("share", 4, 1, 1, 1, 1)]}, map[string]string{"type": "manual"}, map[string]string{"type": "zzz"}}[t.Pick("hours-sel", 4, 3, 1)],
				"ignore_unconfirmed": t.Bool("ignore-unconfirmed"),
				"unsigned":           t.Bool("unsigned-bool"),
			}
			dst := map[string]string{"address": pick(addrs, "addr"), "coins": []string{"0.001", "1", "0", "100000000", "0.0000001", "-1", "abc"}[t.Pick("to-coins", 5, 3, 1, 1, 1, 1, 1)]}
			if t.Bool("to-hours") {
				dst["hours"] = []string{"0", "1", "18446744073709551615", "x"}[t.Pick("to-hours-v", 3, 3, 1, 1)]
			}
			body["to"] = []interface{}{dst}
			if t.Chance("change-address", 1, 2) {
				body["change_address"] = pick(addrs, "addr")
			}
			if rt.uri == "/api/v1/wallet/transaction" {
				body["wallet_id"] = pick(append(a.walletNames, "nope.wlt"), "id")
				if t.Chance("create-password", 1, 2) {
					body["password"] = []string{"pw", "wrong", ""}[t.Int("create-pw", 3)]
				}
			}
			switch t.Pick("create-source", 3, 3, 1, 1) {
			case 0:
				l := []string{pick(addrs, "addr")}
				if len(rivalOf) == 2 && t.Bool("rival-address") {
					l = []string{rivalOf[1]}
				}
				body["addresses"] = l
			case 1:
				l := []string{pick(append(uxids, "00"), "uxid")}
				if len(rivalOf) == 2 && t.Bool("rival-uxout") {
					l = []string{rivalOf[0]}
				} else if t.Bool("two-uxouts") {
					l = append(l, pick(uxids, "uxid"))
				}
				body[map[string]string{"/api/v2/transaction": "unspents", "/api/v1/wallet/transaction": "unspents"}[rt.uri]] = l
			case 2:
				body["addresses"] = []string{pick(addrs, "addr")}
				body["unspents"] = []string{pick(uxids, "uxid")}
			}
			b, _ := json.Marshal(body)
			q.ctype, q.body = "application/json", string(b)
			c.Count("probe.well_formed_create_transaction_request")
		} else if strings.HasPrefix(rt.uri, "/api/v2/") && method != "GET" {
			q.ctype = "application/json"
			switch t.Pick("json-shape", 6, 1, 1, 1) {
			case 0:
				if _, ok := jsonBody["unsigned"]; ok {
					jsonBody["unsigned"] = t.Bool("unsigned-bool")
				}
				b, _ := json.Marshal(jsonBody)
				q.body = string(b)
			case 1:
				q.body = "{"
			case 2:
				q.body = "[]"
			case 3:
				q.body = `{"encoded_transaction": 5, "id": [1]}`
			}
			if t.Chance("wrong-ctype", 1, 10) {
				q.ctype = "text/plain"
			}
		} else if method == "GET" || method == "HEAD" {
			q.query = vals.Encode()
		} else {
			q.ctype = "application/x-www-form-urlencoded"
			q.body = vals.Encode()
			if t.Chance("huge-body", 1, 30) {
				q.body += "&pad=" + strings.Repeat("z", 1<<16)
			}
		}
		if c.Property == "C28" && t.Chance("directed-count-request", 1, 6000) {
			// the recorded finding, asked for outright now and then (each occurrence costs the run 45 s of real time):
			// a well-formed request to a loaded wallet with an astronomically large count
			big := []string{"4294967295", "9223372036854775807", "18446744073709551615"}[t.Int("directed-count", 3)]
			form := func(kv ...string) string {
				v := url.Values{}
				for i := 0; i+1 < len(kv); i += 2 {
					v.Set(kv[i], kv[i+1])
				}
				return v.Encode()
			}
			wi := t.Int("directed-wallet", 2)
			pw := []string{"", "pw"}[wi]
			q = apiReq{method: "POST", host: apiHost, ctype: "application/x-www-form-urlencoded"}
			switch t.Int("directed-route", 4) {
			case 0:
				q.uri, q.body = "/api/v1/wallet/newAddress", form("id", a.walletNames[wi], "num", big, "password", pw)
			case 1:
				q.uri, q.body = "/api/v1/wallet/scan", form("id", a.walletNames[wi], "num", big, "password", pw)
			case 2:
				q.uri, q.body = "/api/v1/wallet/create", form("seed", "directed seed "+big, "label", "d", "scan", big)
			case 3:
				q.uri, q.body = "/api/v1/wallet/createTemp", form("seed", "directed seed "+big, "label", "d", "type", "deterministic", "scan", big)
			}
			method, rt.uri = "POST", q.uri
			c.Count("probe.directed_count_request")
		}
		resp := a.do(q)
		c.Kind(byte(resp.status/100), resp.panicked == nil)
		c.Logf("%s %s ?%s body=%dB -> %d", method, rt.uri, trunc(q.query, 80), len(q.body), resp.status)
		if resp.panicked != nil {
			c.Violate("handler-panic", resp.where, "%s %s (query %q, body %q) panicked in %s: %v", method, rt.uri, trunc(q.query, 200), trunc(q.body, 200), resp.where, resp.panicked)
			return
		}
		if resp.status < 200 || resp.status > 599 {
			c.Violate("bad-status", rt.uri, "%s %s answered status %d", method, rt.uri, resp.status)
			return
		}
		if resp.body != nil && strings.HasPrefix(resp.ctype, "application/json") && len(bytes.TrimSpace(resp.body)) > 0 {
			var v interface{}
			if err := json.Unmarshal(resp.body, &v); err != nil {
				c.Violate("malformed-json-response", rt.uri, "%s %s declared JSON but the body does not parse: %v", method, rt.uri, err)
				return
			}
			if rt.uri == "/api/v2/transaction/verify" && method == "POST" && q.ctype == "application/json" {
				c.Count("probe.verify_answered")
				m, _ := v.(map[string]interface{})
				if m == nil || (m["data"] == nil && m["error"] == nil) {
					c.Violate("verify-no-verdict", "verify", "transaction verification returned neither data nor error")
					return
				}
			}
		}
		c.Count(fmt.Sprintf("status.%dxx", resp.status/100))
	}
	// the node is still healthy
	uxs, err := pub.v.GetAllUnspentOutputs()
	if err != nil {
		c.Violate("node-unhealthy-after-requests", "unspents", "after the request session the node cannot list its unspent outputs: %v", err)
		return
	}
	sum := uint64(0)
	for i := range uxs {
		sum += uxs[i].Body.Coins
	}
	if sum != a.w.genCoins {
		c.Violate("node-unhealthy-after-requests", "supply", "after the request session the coin supply changed")
	}
}

func addrString(w *world, a model.Addr) string {
	if k, ok := w.byAddr[a]; ok {
		return k.addr.String()
	}
	return ""
}

func trunc(s string, n int) string {
	if len(s) > n {
		return s[:n] + "..."
	}
	return s
}
