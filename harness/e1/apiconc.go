package e1

import (
	"os"
	"encoding/hex"
	"encoding/json"
	"fmt"
	"net/url"
	"runtime"
	"sort"
	"strings"
	"testing/synctest"
	"time"

	"github.com/skycoin/skycoin/src/api"
	"github.com/skycoin/skycoin/src/cipher/bip44"
	"github.com/skycoin/skycoin/src/cipher/crypto"
	"github.com/skycoin/skycoin/src/wallet"

	"verifsim/sim"
)

// Concurrent API requests (second phase of C28).  A real node answers requests from several clients at once;
// net/http runs every request on its own goroutine, and what two requests can do to each other is decided by
// the wallet service's lock.  Here 2-4 client goroutines send scripted request sequences through the real
// handler while the tape decides, at every acquisition of the wallet service lock (hook H9) and between
// requests, which goroutine proceeds.  A request that never returns (all remaining clients blocked for a
// simulated minute with nothing left to schedule) is the violation this phase exists for; panics and
// malformed responses are judged as in the sequential phase.

type concResult struct {
	req  apiReq
	resp apiResp
	done bool
}

var (
	concCur  [8]string // what each client is doing (norace)
	concDone [8]bool
)

//go:norace
func concSet(i int, s string) { concCur[i] = s }

//go:norace
func concFinish(i int) { concDone[i] = true }

//go:norace
func concState(n int) (cur []string, allDone bool) {
	allDone = true
	for i := 0; i < n; i++ {
		cur = append(cur, concCur[i])
		if !concDone[i] {
			allDone = false
		}
	}
	return
}

//go:norace
func concReset() {
	concCur = [8]string{}
	concDone = [8]bool{}
}

// inDBTransaction: a goroutine inside a bolt transaction holds bolt's own mutexes, on which another goroutine
// would block without being durably blocked; such a goroutine is never parked.
func inDBTransaction() bool {
	buf := make([]byte, 1<<14)
	n := runtime.Stack(buf, false)
	s := string(buf[:n])
	return strings.Contains(s, "dbutil.(*DB).View") || strings.Contains(s, "dbutil.(*DB).Update") || strings.Contains(s, "bolt.(*DB)")
}

func runAPIConcurrent(c *sim.Ctx) {
	t := c.T
	cfg := api.Config{EnabledAPISets: map[string]struct{}{}, DisableCSP: true, DisableCSRF: true, DisableHeaderCheck: true}
	for _, s := range allSets {
		cfg.EnabledAPISets[s] = struct{}{}
	}
	a := newAPINode(c, cfg, 1+t.Int("api-blocks", 3))
	defer a.close()
	pub := a.w.nodes[0]
	var addrs []string
	for _, k := range a.w.clients {
		addrs = append(addrs, k.addr.String())
	}
	var rawtxs []string
	for _, h := range pub.m.PoolHashes() {
		tx := pub.m.Pool[h].Txn
		rawtxs = append(rawtxs, hex.EncodeToString(tx.Encode()))
	}
	rawtxs = append(rawtxs, "00")
	names := append([]string{}, a.walletNames...)
	// scripts are drawn before anything runs: only the controller may draw while goroutines run
	nClients := t.Range("conc-clients", 2, 4)
	scripts := make([][]apiReq, nClients)
	form := func(kv ...string) string {
		v := url.Values{}
		for i := 0; i+1 < len(kv); i += 2 {
			v.Set(kv[i], kv[i+1])
		}
		return v.Encode()
	}
	for i := range scripts {
		n := t.Range("conc-requests", 3, 8)
		for j := 0; j < n; j++ {
			id := names[t.Int("conc-wallet", len(names))]
			pw := []string{"", "pw", "wrong"}[t.Pick("conc-pw", 3, 3, 1)]
			var q apiReq
			switch t.Pick("conc-route", 6, 2, 2, 2, 4, 3, 1, 1, 1, 1, 2, 1, 1) {
			case 0:
				q = apiReq{method: "GET", uri: "/api/v1/wallet/balance", query: form("id", id)}
			case 1:
				q = apiReq{method: "GET", uri: "/api/v1/wallet", query: form("id", id)}
			case 2:
				q = apiReq{method: "GET", uri: "/api/v1/wallets"}
			case 3:
				q = apiReq{method: "GET", uri: "/api/v1/wallet/transactions", query: form("id", id)}
			case 4:
				q = apiReq{method: "POST", uri: "/api/v1/wallet/update", body: form("id", id, "label", fmt.Sprintf("l%d-%d", i, j))}
			case 5:
				q = apiReq{method: "POST", uri: "/api/v1/wallet/newAddress", body: form("id", id, "num", "1", "password", pw)}
			case 6:
				q = apiReq{method: "POST", uri: "/api/v1/wallet/encrypt", body: form("id", id, "password", "pw")}
			case 7:
				q = apiReq{method: "POST", uri: "/api/v1/wallet/decrypt", body: form("id", id, "password", pw)}
			case 8:
				q = apiReq{method: "POST", uri: "/api/v1/wallet/create", body: form("seed", fmt.Sprintf("conc seed %d %d %d", c.Seed%1000, i, j), "label", "c", "type", wallet.WalletTypeDeterministic, "scan", "1")}
			case 9:
				q = apiReq{method: "POST", uri: "/api/v1/wallet/unload", body: form("id", id)}
			case 10:
				body := map[string]interface{}{"hours_selection": map[string]string{"type": "auto", "mode": "share", "share_factor": "0.5"}, "wallet_id": id,
					"to": []interface{}{map[string]string{"address": addrs[t.Int("conc-addr", len(addrs))], "coins": "0.001"}}, "password": pw}
				b, _ := json.Marshal(body)
				q = apiReq{method: "POST", uri: "/api/v1/wallet/transaction", body: string(b), ctype: "application/json"}
			case 11:
				q = apiReq{method: "GET", uri: "/api/v1/balance", query: form("addrs", addrs[t.Int("conc-addr", len(addrs))])}
			case 12:
				b, _ := json.Marshal(map[string]string{"rawtx": rawtxs[t.Int("conc-rawtx", len(rawtxs))]})
				q = apiReq{method: "POST", uri: "/api/v1/injectTransaction", body: string(b), ctype: "application/json"}
			}
			q.host = apiHost
			if q.method == "POST" && q.ctype == "" {
				q.ctype = "application/x-www-form-urlencoded"
			}
			scripts[i] = append(scripts[i], q)
		}
	}
	decisions := 60 + t.Int("conc-decisions", 200)
	c.Sample = append(c.Sample, fmt.Sprintf("%d concurrent clients, %d requests in all, chain of %d blocks, %d scheduling decisions", nClients, func() int {
		n := 0
		for _, s := range scripts {
			n += len(s)
		}
		return n
	}(), len(a.chain), decisions))

	concReset()
	schedReset()
	wallet.VerifLockYield = func(kind string) {
		if inDBTransaction() {
			return
		}
		Yield("wallet " + kind)
	}
	defer func() { wallet.VerifLockYield = nil }()
	results := make([][]concResult, nClients)
	for i := range scripts {
		ci := i
		go func() {
			Register("client" + itoa(ci))
			for k, q := range scripts[ci] {
				concSet(ci, fmt.Sprintf("request %d: %s %s", k, q.method, q.uri))
				Yield("act")
				resp := a.do(q)
				results[ci] = append(results[ci], concResult{req: q, resp: resp, done: true})
			}
			concSet(ci, "")
			concFinish(ci)
		}()
	}
	start := time.Now()
	idle := 0
	turn := 0
	for {
		synctest.Wait()
		c.SimNanos = int64(time.Since(start))
		parked := collectParked()
		cur, allDone := concState(nClients)
		if allDone {
			break
		}
		if len(parked) == 0 {
			// nobody can be scheduled: either a request waits for time to pass (it does not, here) or requests wait for
			// each other
			idle++
			if idle > 60 {
				// an earlier request that panicked while it held the lock is the cause, not the requests now waiting
				for ci, rs := range results {
					for _, r := range rs {
						if r.resp.panicked != nil {
							c.Violate("handler-panic", r.resp.where, "client %d %s %s (body %q) panicked in %s: %v (other requests then waited forever)", ci, r.req.method, r.req.uri, trunc(r.req.body, 200), r.resp.where, r.resp.panicked)
						}
					}
				}
				if c.Failed() {
					break
				}
				var stuck []string
				for i, s := range cur {
					if s != "" {
						stuck = append(stuck, fmt.Sprintf("client%d %s", i, s))
					}
				}
				sort.Strings(stuck)
				var routes []string
				for _, s := range stuck {
					f := strings.Fields(s)
					routes = append(routes, f[len(f)-1])
				}
				sort.Strings(routes)
				c.Violate("request-hangs", strings.Join(routes, " + "), "requests that never return (every remaining client is blocked, nothing is left to schedule, one simulated minute passed): %s; blocked in: %s", strings.Join(stuck, "; "), blockedClientFrames())
				break
			}
			advance(time.Second)
			continue
		}
		idle = 0
		var pick int
		if c.Step >= decisions {
			pick = turn % len(parked)
			turn++
		} else {
			v := c.T.Draw("conc-sched", 1<<32)
			best := uint64(0)
			for i, p := range parked {
				if sc := rendezvous(v, p.name, p.label); i == 0 || sc < best {
					best, pick = sc, i
				}
			}
		}
		p := parked[pick]
		c.Step++
		c.Logf("release %s @ %s (of %d)", p.name, p.label, len(parked))
		c.Kind(labelKind(p.label), true)
		release(p.idx)
		stepOnce()
		if c.Step > decisions+20000 {
			sim.Harnessf("concurrent API run does not end")
		}
	}
	if !c.Failed() {
		synctest.Wait()
		for ci, rs := range results {
			for _, r := range rs {
				c.Count(fmt.Sprintf("status.%dxx", r.resp.status/100))
				if r.resp.panicked != nil {
					c.Violate("handler-panic", r.resp.where, "client %d %s %s (body %q) panicked in %s: %v", ci, r.req.method, r.req.uri, trunc(r.req.body, 200), r.resp.where, r.resp.panicked)
					break
				}
				if r.resp.status < 200 || r.resp.status > 599 {
					c.Violate("bad-status", r.req.uri, "%s %s answered status %d", r.req.method, r.req.uri, r.resp.status)
					break
				}
			}
		}
		c.Count("probe.concurrent_sessions_completed")
		if c.Property == "C19c" && !c.Failed() {
			// second phase of C19: after requests that overlapped at the wallet service's lock, what the service holds in
			// memory must be what a service started afresh on the same directory loads
			wallet.VerifLockYield = nil // the controller itself now goes through the service lock
			bc := bip44.CoinTypeSkycoin
			fresh, err := wallet.NewService(wallet.Config{WalletDir: c.Dir + "/wallets", CryptoType: crypto.CryptoTypeSha256Xor, EnableWalletAPI: true, EnableSeedAPI: true, Bip44Coin: &bc})
			if err != nil {
				c.Violate("fresh-service-fails", "after-concurrent-requests", "after %d concurrent clients a wallet service cannot be started on the wallet directory: %v", nClients, err)
			} else {
				mem, _ := a.wallets.GetWallets()
				disk, _ := fresh.GetWallets()
				var mnames []string
				for name := range mem {
					mnames = append(mnames, name)
				}
				sort.Strings(mnames)
				for _, name := range mnames {
					mw := mem[name]
					if mw.IsTemp() {
						continue
					}
					dw, ok := disk[name]
					if !ok {
						c.Violate("memory-differs-from-disk", "concurrent:missing-on-disk", "after concurrent requests wallet %s is loaded in memory but a fresh service does not find it", name)
						break
					}
					mb, _ := mw.Serialize()
					db, _ := dw.Serialize()
					if string(mb) != string(db) {
						what := "content"
						if mw.IsEncrypted() != dw.IsEncrypted() {
							what = "encrypted-flag"
						}
						c.Violate("memory-differs-from-disk", "concurrent:"+what, "after concurrent requests (all answered) wallet %s in memory differs from what a fresh service loads (%s; in memory encrypted=%v, on disk encrypted=%v)", name, what, mw.IsEncrypted(), dw.IsEncrypted())
						break
					}
				}
				c.Count("probe.memory_compared_with_fresh_service_after_concurrent_requests")
			}
		}
	}
	if c.Failed() && c.Bail != nil {
		c.Bail() // blocked request goroutines never finish
	}
	schedOff()
}

func rendezvous(v uint64, name, label string) uint64 {
	h := uint64(1469598103934665603) ^ (v * 0x9e3779b97f4a7c15)
	for i := 0; i < len(name); i++ {
		h ^= uint64(name[i])
		h *= 1099511628211
	}
	h ^= 0xff
	h *= 1099511628211
	for i := 0; i < len(label); i++ {
		h ^= uint64(label[i])
		h *= 1099511628211
	}
	h ^= h >> 29
	h *= 0xbf58476d1ce4e5b9
	h ^= h >> 32
	return h
}

func labelKind(l string) byte {
	h := byte(0)
	for i := 0; i < len(l); i++ {
		h = h*31 + l[i]
	}
	return h % 60
}

func itoa(i int) string { return fmt.Sprint(i) }

// blockedClientFrames: where the client goroutines that are still alive are blocked (innermost frames of the code under test).
func blockedClientFrames() string {
	buf := make([]byte, 1<<20)
	n := runtime.Stack(buf, true)
	if d := os.Getenv("VERIF_DUMP_STACKS"); d != "" {
		_ = os.WriteFile(d, buf[:n], 0o600)
	}
	var out []string
	for _, g := range strings.Split(string(buf[:n]), "\n\n") {
		if !strings.Contains(g, "e1.runAPIConcurrent.func") || strings.Contains(g, "blockedClientFrames") {
			continue
		}
		var fr []string
		for _, l := range strings.Split(g, "\n") {
			if strings.Contains(l, "skycoin/skycoin/src/") && !strings.HasPrefix(l, "\t") {
				f := l[strings.Index(l, "skycoin/skycoin/src/")+len("skycoin/skycoin/src/"):]
				if k := strings.LastIndex(f, "("); k > 0 {
					f = f[:k]
				}
				fr = append(fr, f)
				if len(fr) >= 6 {
					break
				}
			}
		}
		out = append(out, strings.Join(fr, " < "))
	}
	sort.Strings(out)
	return strings.Join(out, " || ")
}
