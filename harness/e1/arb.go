package e1

import (
	"fmt"

	"verifsim/model"
)

// submitBlockArbitrating hands a block to the publisher node.  A publisher
// runs in "arbitrating" mode: after the header checks it drops transactions
// that violate hard rules or lose a conflict instead of refusing the block.
// The statement of every ledger property still applies to what it appends:
// the header rules are exactly the follower's, and whatever ends up stored
// and applied must satisfy the transaction rules.  The model therefore checks
// the header first and then judges the block *as stored*.
func (s *ledgerSim) submitBlockArbitrating(n *node, b model.Block, label string, kind byte) bool {
	c := s.c
	pre := s.snapshot(n, s.prop == "C04")
	hv := n.m.CheckHeader(&b)
	strict := n.m.CheckBlock(&b)
	err := n.v.ExecuteSignedBlock(cBlock(&b))
	accepted := err == nil
	c.Kind(kind, accepted)
	c.Count("block.to_publisher")
	c.Logf("block n%d(publisher) %s seq=%d time=%d ntx=%d -> accepted=%v (header %s:%s strict %s:%s)", n.id, label, b.Head.BkSeq, b.Head.Time, len(b.Txns), accepted, hv.V, hv.Reason, strict.V, strict.Reason)
	if !accepted {
		c.Count("block.rejected")
		if s.prop == "C04" {
			if fp := n.dbFingerprint(nil); fp != pre.fp {
				c.Violate("reject-changed-state", "rejected-block-changed-db:publisher", "publisher rejected block (%s) but its database content changed", label)
				return false
			}
		}
		if strict.V == model.Accept {
			s.desync = true
			c.Count("desync.block_rejected_valid")
			c.Notef("desync: publisher rejected (%v) a block the strict rules accept [%s]", err, label)
		}
		return false
	}
	c.Count("block.accepted")
	if hv.V == model.Reject {
		if s.owns(hv.Reason) {
			c.Violate("accepted-invalid-block", "publisher:"+hv.Reason, "publisher appended a block the rules refuse (%s) [%s]", hv.Reason, label)
		} else {
			s.desync = true
			c.Count("desync.block")
		}
		return true
	}
	sb, gerr := n.v.GetSignedBlockBySeq(b.Head.BkSeq)
	if gerr != nil || sb == nil {
		c.Violate("stored-block-missing", "stored-block-missing", "publisher accepted block seq %d but cannot return it: %v", b.Head.BkSeq, gerr)
		return true
	}
	st := mBlock(sb)
	if len(st.Txns) != len(b.Txns) {
		c.Count("probe.arbitration_dropped_from_received_block")
	}
	// what was stored must come from what was submitted
	sub := map[model.Hash]int{}
	for i := range b.Txns {
		sub[b.Txns[i].Hash()]++
	}
	for i := range st.Txns {
		h := st.Txns[i].Hash()
		if sub[h] == 0 {
			c.Violate("stored-block-differs", "publisher:foreign-txn", "publisher stored txn %s that was not in the submitted block", short(h))
			return true
		}
		sub[h]--
	}
	// every stored (= applied) transaction must satisfy the block rules at the previous head
	spent := map[model.Hash]bool{}
	for i := range st.Txns {
		t := &st.Txns[i]
		chk := n.m.BlockTxnRules(t)
		if chk.Class == model.Undecided {
			c.Undecided++
			s.desync = true
			return true
		}
		if chk.Class == model.Hard {
			if s.owns("txn: " + chk.Reason) {
				c.Violate("accepted-invalid-block", "publisher:txn: "+chk.Reason, "publisher applied txn %s of a received block although it violates a hard rule (%s) [%s]", short(t.Hash()), chk.Reason, label)
			} else {
				s.desync = true
				c.Count("desync.block")
			}
			return true
		}
		for _, in := range t.In {
			if spent[in] {
				if s.owns("double spend in block") {
					c.Violate("accepted-invalid-block", "publisher:double spend in block", "publisher applied two spenders of %s from one received block", short(in))
				} else {
					s.desync = true
				}
				return true
			}
			spent[in] = true
		}
	}
	if b.Head.UxHash != n.m.UxHash {
		if s.owns("unspent checksum") {
			c.Violate("accepted-invalid-block", "publisher:unspent checksum", "publisher appended a block with a wrong unspent-set checksum [%s]", label)
		} else {
			s.desync = true
		}
		return true
	}
	if s.prop == "C04" {
		// "signed over exactly the header that gets stored ... its body hash matches its transactions"
		if st.Head != b.Head {
			c.Violate("stored-header-differs", "publisher:"+diffHeader(&st.Head, &b.Head), "publisher stored a header that differs from the signed one submitted (%s)", diffHeader(&st.Head, &b.Head))
			return true
		}
		if st.Head.Body != model.BodyHash(st.Txns) {
			c.Violate("stored-body-mismatch", "publisher:arbitration-dropped-txns", "publisher appended block %d whose stored body hash does not match its %d stored transactions (%d were submitted): %s", st.Head.BkSeq, len(st.Txns), len(b.Txns), fmt.Sprint(label))
			return true
		}
	} else {
		s.acceptedBlockOracles(n, &st, pre)
		if c.Failed() {
			return true
		}
	}
	n.m.Apply(st)
	return true
}
