package e1

import (
	"fmt"
	"reflect"
	"sort"
	"strings"

	"github.com/skycoin/skycoin/src/daemon"

	"verifsim/sim"
)

// Direct histories for C24.  The statement quantifies over "any sequence of
// connection events"; the pool above the bookkeeping never produces some of
// them (a second connect event for an address that is already connected, an
// introduced peer that reports no listen port and stays, a removal with a
// stale id ...).  Here the bookkeeping object alone (hook H5:
// VerifNewConnections) is offered tape-chosen events, legal and illegal, and
// judged by three rules that need no model of the error conditions:
//
//   - an event that returns an error leaves the connection list and all four
//     secondary maps exactly as they were;
//   - an event that succeeds changes the connection list the way the event
//     says (pending adds a pending outgoing entry, connect adds or promotes,
//     introduce promotes connected -> introduced with the matching id, remove
//     deletes), and nothing else;
//   - after every event the secondary maps are exactly what the connection
//     list implies (the same comparison as in the network runs), two
//     introduced connections never share IP and mirror, every id in the id map
//     resolves to the connection that carries it.
func runBookkeepingDirect(c *sim.Ctx) {
	t := c.T
	v := daemon.VerifNewConnections()
	ips := []string{"10.1.0.1", "10.1.0.2", "10.1.0.3"}
	ports := []int{6000, 7001, 7002}
	addr := func() string {
		return fmt.Sprintf("%s:%d", ips[t.Int("d-ip", len(ips))], ports[t.Int("d-port", len(ports))])
	}
	nextID := uint64(0)
	steps := t.Range("d-steps", 8, 60)
	c.Sample = append(c.Sample, fmt.Sprintf("bookkeeping object alone, %d events on %d IPs x %d ports", steps, len(ips), len(ports)))
	prev := map[string]daemon.VerifConn{}
	before := v.Snapshot()
	for c.Step = 1; c.Step <= steps && !c.Failed(); c.Step++ {
		a := addr()
		cur, have := prev[a]
		// id to use: fresh, the connection's own, another connection's, zero
		id := func() uint64 {
			switch t.Pick("d-id", 5, 2, 1, 1) {
			case 0:
				if have && cur.GnetID != 0 {
					return cur.GnetID
				}
				nextID++
				return nextID
			case 1:
				nextID++
				return nextID
			case 2:
				if nextID > 0 {
					return 1 + uint64(t.Int("d-oldid", int(nextID)))
				}
				return 7
			}
			return 0
		}
		var err error
		var what string
		op := t.Pick("d-op", 3, 5, 5, 4)
		var gid uint64
		var mirror uint32
		var port uint16
		switch op {
		case 0:
			what = "pending " + a
			err = v.Pending(a)
		case 1:
			// the pool numbers its connections with a counter: a connect event carries a fresh id (or, for a
			// connection that is already held, once more its own id, or a newer one; or the invalid id 0), never
			// the id another held connection carries
			switch {
			case t.Chance("d-zero-id", 1, 12):
				gid = 0
			case have && cur.GnetID != 0 && t.Chance("d-own-id", 1, 3):
				gid = cur.GnetID
			default:
				nextID++
				gid = nextID
			}
			what = fmt.Sprintf("connected %s id=%d", a, gid)
			err = v.Connected(a, gid)
		case 2:
			gid = id()
			mirror = []uint32{0xB1, 0, 0xB2}[t.Pick("d-mirror", 4, 2, 2)]
			port = []uint16{7001, 0, 7002, 6000}[t.Pick("d-lport", 3, 3, 2, 1)]
			what = fmt.Sprintf("introduced %s id=%d mirror=%x port=%d", a, gid, mirror, port)
			err = v.Introduced(a, gid, mirror, port, 2)
		case 3:
			gid = id()
			what = fmt.Sprintf("remove %s id=%d", a, gid)
			err = v.Remove(a, gid)
		}
		after := v.Snapshot()
		c.Kind(byte(10+op), err == nil)
		c.Logf("%s -> %v", what, err)
		if err != nil {
			c.Count("probe.direct_event_refused")
			if !reflect.DeepEqual(normSnap(before), normSnap(after)) {
				c.Violate("refused-event-changed-bookkeeping", strings.Fields(what)[0]+":"+diffSnap(before, after),
					"%s returned %q but changed the bookkeeping: %s", what, err, diffSnapDetail(before, after))
				return
			}
		} else {
			c.Count("probe.direct_event_applied")
			got := map[string]daemon.VerifConn{}
			for _, x := range after.Conns {
				got[x.Addr] = x
			}
			// the event's own effect
			exp := map[string]daemon.VerifConn{}
			for k, x := range prev {
				exp[k] = x
			}
			ip := strings.Split(a, ":")[0]
			switch op {
			case 0:
				if have {
					c.Violate("direct-event-accepted", "pending-on-existing", "%s succeeded although the address is already held (%s)", what, cur.State)
					return
				}
				n := got[a]
				if n.State != daemon.ConnectionStatePending || !n.Outgoing {
					c.Violate("direct-event-effect", "pending", "%s succeeded but the entry is %+v", what, n)
					return
				}
				exp[a] = n
			case 1:
				if gid == 0 {
					c.Violate("direct-event-accepted", "connected-id-0", "%s succeeded with connection id 0", what)
					return
				}
				if have && cur.State != daemon.ConnectionStatePending {
					c.Violate("direct-event-accepted", "connected-on-"+string(cur.State), "%s succeeded although the connection was already %s", what, cur.State)
					return
				}
				n := got[a]
				if n.State != daemon.ConnectionStateConnected || n.GnetID != gid || n.Outgoing != have {
					c.Violate("direct-event-effect", "connected", "%s succeeded but the entry is %+v", what, n)
					return
				}
				exp[a] = n
			case 2:
				if !have || cur.State != daemon.ConnectionStateConnected || cur.GnetID != gid {
					st := "absent"
					if have {
						st = string(cur.State)
					}
					c.Violate("direct-event-accepted", "introduced-from-"+st, "%s succeeded although the connection was %s with id %d", what, st, cur.GnetID)
					return
				}
				for k, x := range prev {
					if k != a && x.State == daemon.ConnectionStateIntroduced && x.Mirror == mirror && strings.Split(k, ":")[0] == ip {
						c.Violate("two-introduced-share-ip-mirror", "dup", "%s succeeded although %s is introduced with the same IP and mirror", what, k)
						return
					}
				}
				n := got[a]
				if n.State != daemon.ConnectionStateIntroduced || n.GnetID != gid || n.Mirror != mirror {
					c.Violate("direct-event-effect", "introduced", "%s succeeded but the entry is %+v", what, n)
					return
				}
				exp[a] = n
			case 3:
				if !have {
					c.Violate("direct-event-accepted", "remove-absent", "%s succeeded although no such connection is held", what)
					return
				}
				if cur.GnetID != gid {
					c.Violate("direct-event-accepted", "remove-other-id", "%s succeeded although the connection has id %d", what, cur.GnetID)
					return
				}
				delete(exp, a)
			}
			if !reflect.DeepEqual(exp, got) {
				c.Violate("direct-event-effect", strings.Fields(what)[0]+":other-entries", "%s changed more than its own entry: expected %v, got %v", what, exp, got)
				return
			}
			prev = got
		}
		if checkDerivedMaps(c, after, nil, v.GetByListenAddr) {
			return
		}
		// every id of the id map resolves to the connection carrying it, and no other id resolves
		ids := make([]uint64, 0, len(after.GnetIDs))
		for id := range after.GnetIDs {
			ids = append(ids, id)
		}
		sort.Slice(ids, func(i, j int) bool { return ids[i] < ids[j] })
		for probe := uint64(1); probe <= nextID+1; probe++ {
			owner := ""
			for _, x := range after.Conns {
				if x.State != daemon.ConnectionStatePending && x.GnetID == probe {
					owner = x.Addr
				}
			}
			if r := v.GetByGnetID(probe); r != owner {
				c.Violate("id-map", "lookup", "connection id %d resolves to %q, the connection carrying it is %q", probe, r, owner)
				return
			}
		}
		c.Count("probe.bookkeeping_compared")
		c.State(uint64(len(after.Conns)), uint64(len(after.Mirrors)), uint64(len(after.ListenAddrs)), 99)
		before = after
	}
	if c.Failed() {
		return
	}
	// remove everything: all maps empty
	final := v.Snapshot()
	for _, x := range final.Conns {
		if err := v.Remove(x.Addr, x.GnetID); err != nil {
			c.Violate("direct-event-effect", "teardown-remove", "removing %s with its own id %d failed: %v", x.Addr, x.GnetID, err)
			return
		}
	}
	c.Step++
	end := v.Snapshot()
	if len(end.Conns) != 0 || len(end.Mirrors) != 0 || len(end.IPCounts) != 0 || len(end.GnetIDs) != 0 || len(end.ListenAddrs) != 0 {
		var left []string
		if len(end.Conns) != 0 {
			left = append(left, "conns")
		}
		if len(end.Mirrors) != 0 {
			left = append(left, "mirrors")
		}
		if len(end.IPCounts) != 0 {
			left = append(left, "ipCounts")
		}
		if len(end.GnetIDs) != 0 {
			left = append(left, "gnetIDs")
		}
		if len(end.ListenAddrs) != 0 {
			left = append(left, "listenAddrs")
		}
		c.Violate("maps-not-empty", strings.Join(left, ","), "every connection was removed but these maps are not empty: %v (%+v)", left, end)
		return
	}
	c.Count("probe.all_connections_removed")
}

// normSnap makes snapshots comparable (nil vs. empty maps).
func normSnap(s daemon.VerifConnSnapshot) string {
	return fmt.Sprintf("%v|%v|%v|%v|%v", s.Conns, sortedMapStr(s.Mirrors), sortedMapStr(s.IPCounts), sortedMapStr(s.GnetIDs), sortedMapStr(s.ListenAddrs))
}

func sortedMapStr(m interface{}) string {
	v := reflect.ValueOf(m)
	var parts []string
	for _, k := range v.MapKeys() {
		e := v.MapIndex(k)
		if e.Kind() == reflect.Map {
			parts = append(parts, fmt.Sprintf("%v:{%s}", k.Interface(), sortedMapStr(e.Interface())))
		} else {
			parts = append(parts, fmt.Sprintf("%v:%v", k.Interface(), e.Interface()))
		}
	}
	sort.Strings(parts)
	return strings.Join(parts, ",")
}

func diffSnap(a, b daemon.VerifConnSnapshot) string {
	var d []string
	if fmt.Sprint(a.Conns) != fmt.Sprint(b.Conns) {
		d = append(d, "conns")
	}
	if sortedMapStr(a.Mirrors) != sortedMapStr(b.Mirrors) {
		d = append(d, "mirrors")
	}
	if sortedMapStr(a.IPCounts) != sortedMapStr(b.IPCounts) {
		d = append(d, "ipCounts")
	}
	if sortedMapStr(a.GnetIDs) != sortedMapStr(b.GnetIDs) {
		d = append(d, "gnetIDs")
	}
	if sortedMapStr(a.ListenAddrs) != sortedMapStr(b.ListenAddrs) {
		d = append(d, "listenAddrs")
	}
	return strings.Join(d, ",")
}

func diffSnapDetail(a, b daemon.VerifConnSnapshot) string {
	return "before " + normSnap(a) + " after " + normSnap(b)
}
