package e1

import (
	"github.com/skycoin/skycoin/src/cipher"
	"github.com/skycoin/skycoin/src/coin"

	"verifsim/model"
)

// Conversions between skycoin's types and the model's types are plain field
// copies: no hashing or encoding of the code under test is used on the way.

func mAddr(a cipher.Address) model.Addr {
	var m model.Addr
	m[0] = a.Version
	copy(m[1:], a.Key[:])
	return m
}

func cAddr(m model.Addr) cipher.Address {
	var a cipher.Address
	a.Version = m[0]
	copy(a.Key[:], m[1:])
	return a
}

func mTxn(t *coin.Transaction) model.Txn {
	m := model.Txn{Length: t.Length, Type: t.Type, Inner: model.Hash(t.InnerHash)}
	m.Sigs = make([]model.Sig, len(t.Sigs))
	for i := range t.Sigs {
		m.Sigs[i] = model.Sig(t.Sigs[i])
	}
	m.In = make([]model.Hash, len(t.In))
	for i := range t.In {
		m.In[i] = model.Hash(t.In[i])
	}
	m.Out = make([]model.Out, len(t.Out))
	for i := range t.Out {
		m.Out[i] = model.Out{Addr: mAddr(t.Out[i].Address), Coins: t.Out[i].Coins, Hours: t.Out[i].Hours}
	}
	return m
}

func cTxn(m *model.Txn) coin.Transaction {
	t := coin.Transaction{Length: m.Length, Type: m.Type, InnerHash: cipher.SHA256(m.Inner)}
	t.Sigs = make([]cipher.Sig, len(m.Sigs))
	for i := range m.Sigs {
		t.Sigs[i] = cipher.Sig(m.Sigs[i])
	}
	t.In = make([]cipher.SHA256, len(m.In))
	for i := range m.In {
		t.In[i] = cipher.SHA256(m.In[i])
	}
	t.Out = make([]coin.TransactionOutput, len(m.Out))
	for i := range m.Out {
		t.Out[i] = coin.TransactionOutput{Address: cAddr(m.Out[i].Addr), Coins: m.Out[i].Coins, Hours: m.Out[i].Hours}
	}
	return t
}

func mHeader(h *coin.BlockHeader) model.Header {
	return model.Header{Version: h.Version, Time: h.Time, BkSeq: h.BkSeq, Fee: h.Fee,
		Prev: model.Hash(h.PrevHash), Body: model.Hash(h.BodyHash), UxHash: model.Hash(h.UxHash)}
}

func cHeader(h *model.Header) coin.BlockHeader {
	return coin.BlockHeader{Version: h.Version, Time: h.Time, BkSeq: h.BkSeq, Fee: h.Fee,
		PrevHash: cipher.SHA256(h.Prev), BodyHash: cipher.SHA256(h.Body), UxHash: cipher.SHA256(h.UxHash)}
}

func mBlock(b *coin.SignedBlock) model.Block {
	m := model.Block{Head: mHeader(&b.Head), Sig: model.Sig(b.Sig)}
	m.Txns = make([]model.Txn, len(b.Body.Transactions))
	for i := range b.Body.Transactions {
		m.Txns[i] = mTxn(&b.Body.Transactions[i])
	}
	return m
}

func cBlock(m *model.Block) coin.SignedBlock {
	b := coin.SignedBlock{Sig: cipher.Sig(m.Sig)}
	b.Head = cHeader(&m.Head)
	b.Body.Transactions = make(coin.Transactions, len(m.Txns))
	for i := range m.Txns {
		b.Body.Transactions[i] = cTxn(&m.Txns[i])
	}
	return b
}

func mUx(u *coin.UxOut) model.Ux {
	return model.Ux{Time: u.Head.Time, BkSeq: u.Head.BkSeq, Src: model.Hash(u.Body.SrcTransaction),
		Addr: mAddr(u.Body.Address), Coins: u.Body.Coins, Hours: u.Body.Hours}
}

func short(h model.Hash) string {
	const hexd = "0123456789abcdef"
	b := make([]byte, 8)
	for i := 0; i < 4; i++ {
		b[2*i] = hexd[h[i]>>4]
		b[2*i+1] = hexd[h[i]&15]
	}
	return string(b)
}
