package e1

import (
	"bytes"
	"crypto/sha256"
	"encoding/binary"
	"fmt"
	"os"
	"path/filepath"
	"runtime/debug"
	"sort"
	"time"

	"github.com/blang/semver"
	"github.com/boltdb/bolt"

	"github.com/skycoin/skycoin/src/cipher"
	"github.com/skycoin/skycoin/src/visor"
	"github.com/skycoin/skycoin/src/visor/dbutil"

	"verifsim/model"
	"verifsim/sim"
)

// E4: page-image crash model for the chain database (C08).
//
// A tape-generated life-cycle script is executed once on a follower node
// while hook H1 records an image of the database file after every commit.
// Then every commit boundary, and tape-chosen states *inside* commits that
// bolt's write order (grow+sync, data pages in page order, sync, one meta
// page, sync) and an ordered-prefix disk can really leave behind, is
// materialised as a file, the node's start-up sequence is run on it (with and
// without forced verification, with and without reset-on-corruption), the
// whole script is re-delivered (what peers do for a node that is behind) and
// the final logical state must equal that of the twin that never crashed.

const (
	copStartup = iota
	copInject
	copBlock
	copRefresh
	copRemoveInvalid
	copAnnounce
	copRestart
	copRebuildIndex
)

var copNames = [...]string{"startup", "inject", "block", "refresh", "remove-invalid", "announce", "restart", "rebuild-index"}

type cop struct {
	kind int
	txn  model.Txn
	blk  model.Block
}

type image struct {
	op   int // index of the script operation during which this commit happened
	name string
	data []byte
}

const pageSize = 4096

var appVersion = semver.MustParse("0.27.1")

// startup variants
const (
	svPlain = iota
	svForceVerify
	svForceVerifyReset
)

var svNames = [...]string{"plain", "force-verify", "force-verify+reset"}

// crashNode is the node under test in E4.
type crashNode struct {
	w    *world
	twin bool
	path string
	db   *dbutil.DB
	v    *visor.Visor
	cfg  visor.Config
}

// startup replays what skycoin.Coin.Run does with the database: open,
// version check with optional verification/reset, version stamp, visor.New,
// Init.  (The 15 lines of glue in skycoin.checkAndUpdateDB are re-stated
// here; everything they call is the real code.)
func (n *crashNode) startup(variant int) (err error) {
	// a read of a mapped page that lies beyond the end of a file cut short raises SIGBUS: make it a panic of this
	// goroutine and report it as the failed start it is
	debug.SetPanicOnFault(true)
	defer func() {
		if r := recover(); r != nil {
			if _, ok := r.(sim.HarnessError); ok {
				panic(r)
			}
			err = fmt.Errorf("the node dies during start-up: %v", r)
		}
	}()
	// The node under test opens (and creates) the file the node's own way.  The never-crashed twin, whose file
	// images the crash states are cut from, keeps the harness's opener: with bolt's default initial mapping the
	// page a commit picks for its freelist varies from process to process (seen in the determinism self-test),
	// and a replay file must lead to the same images.
	var db *dbutil.DB
	if n.twin {
		db, err = openBolt(n.path)
	} else {
		db, err = visor.OpenDB(n.path, false)
	}
	if err != nil {
		return fmt.Errorf("open: %w", err)
	}
	if _, err := visor.GetDBVersion(db); err != nil {
		db.Close()
		return fmt.Errorf("GetDBVersion: %w", err)
	}
	switch variant {
	case svForceVerify:
		if err := visor.CheckDatabase(db, n.w.pubKey.pub, nil); err != nil {
			db.Close()
			return fmt.Errorf("CheckDatabase: %w", err)
		}
	case svForceVerifyReset:
		ndb, err := visor.ResetCorruptDB(db, n.w.pubKey.pub, nil)
		if err != nil {
			db.Close()
			return fmt.Errorf("ResetCorruptDB: %w", err)
		}
		if ndb != db {
			n.w.c.Count("probe.reset_corrupt_db_recreated")
		}
		db = ndb
	}
	if err := visor.SetDBVersion(db, appVersion); err != nil {
		db.Close()
		return fmt.Errorf("SetDBVersion: %w", err)
	}
	v, err := visor.New(n.cfg, db, nil)
	if err != nil {
		db.Close()
		return fmt.Errorf("visor.New: %w", err)
	}
	if err := v.Init(); err != nil {
		db.Close()
		return fmt.Errorf("visor.Init: %w", err)
	}
	n.db, n.v = db, v
	return nil
}

func (n *crashNode) stop() {
	if n.db != nil {
		n.db.Close()
		n.db, n.v = nil, nil
	}
}

// apply executes one script operation; errors of re-delivered operations are
// expected (a block the node already has, a transaction already confirmed).
func (n *crashNode) apply(o *cop) error {
	switch o.kind {
	case copStartup:
		return nil
	case copInject:
		_, _, err := n.v.InjectForeignTransaction(cTxn(&o.txn))
		return err
	case copBlock:
		return n.v.ExecuteSignedBlock(cBlock(&o.blk))
	case copRefresh:
		_, err := n.v.RefreshUnconfirmed()
		return err
	case copRemoveInvalid:
		_, err := n.v.RemoveInvalidUnconfirmed()
		return err
	case copAnnounce:
		utx, err := n.v.GetAllUnconfirmedTransactions()
		if err != nil {
			return err
		}
		m := map[cipher.SHA256]int64{}
		for i := range utx {
			m[utx[i].Transaction.Hash()] = time.Now().UTC().UnixNano()
		}
		return n.v.SetTransactionsAnnounced(m)
	case copRestart:
		n.stop()
		return n.startup(svPlain)
	case copRebuildIndex:
		// force the address index and the history to be rebuilt at the next start
		n.stop()
		db, err := openBolt(n.path)
		if err != nil {
			return err
		}
		err = db.Update("verif drop index markers", func(tx *dbutil.Tx) error {
			if b := tx.Bucket([]byte("unspent_meta")); b != nil {
				if err := b.Delete([]byte("addr_index_height")); err != nil {
					return err
				}
			}
			if b := tx.Bucket([]byte("history_meta")); b != nil {
				return b.Delete([]byte("parsed_height"))
			}
			return nil
		})
		db.Close()
		if err != nil {
			return err
		}
		return n.startup(svPlain)
	}
	return nil
}

// logicalDump renders the database content independent of page layout,
// timestamps and list order, bucket by bucket.
func logicalDump(db *dbutil.DB) (map[string]string, error) {
	out := map[string]string{}
	err := db.View("verif dump", func(tx *dbutil.Tx) error {
		return tx.ForEach(func(name []byte, b *bolt.Bucket) error {
			h := sha256.New()
			keysOnly := string(name) == "unconfirmed_txns" || string(name) == "unconfirmed_unspents"
			hashList := string(name) == "unspent_pool_addr_index" || string(name) == "address_txns" || string(name) == "address_in"
			n := 0
			err := b.ForEach(func(k, v []byte) error {
				n++
				h.Write([]byte{byte(len(k))})
				h.Write(k)
				if keysOnly {
					return nil
				}
				if hashList && len(v) >= 4 && (len(v)-4)%32 == 0 {
					cnt := (len(v) - 4) / 32
					hs := make([][]byte, cnt)
					for i := 0; i < cnt; i++ {
						hs[i] = v[4+32*i : 4+32*(i+1)]
					}
					sort.Slice(hs, func(i, j int) bool { return bytes.Compare(hs[i], hs[j]) < 0 })
					h.Write(v[:4])
					for _, x := range hs {
						h.Write(x)
					}
					return nil
				}
				h.Write(v)
				return nil
			})
			out[string(name)] = fmt.Sprintf("%d:%x", n, h.Sum(nil)[:10])
			return err
		})
	})
	return out, err
}

func diffDump(a, b map[string]string) []string {
	var d []string
	seen := map[string]bool{}
	for k, v := range a {
		seen[k] = true
		if b[k] != v {
			d = append(d, k)
		}
	}
	for k := range b {
		if !seen[k] {
			d = append(d, k)
		}
	}
	sort.Strings(d)
	return d
}

// genScript runs a never-crashing publisher and records what a follower
// would be sent.
func genScript(c *sim.Ctx, w *world) []cop {
	t := c.T
	pub := w.nodes[0]
	maxBlocks := 6
	if c.Tier == "thorough" {
		maxBlocks = 12
	}
	nBlocks := t.Range("crash-blocks", 1, maxBlocks)
	script := []cop{{kind: copStartup}}
	for b := 0; b < nBlocks; b++ {
		ntx := 1 + t.Pick("crash-ntx", 4, 3, 2)
		for i := 0; i < ntx; i++ {
			tx, ok := w.mkSpend(pub.m, false)
			if !ok {
				continue
			}
			exp, _ := pub.m.InjectForeign(&tx, pub.m.Cfg.Unconfirmed)
			_, _, err := pub.v.InjectForeignTransaction(cTxn(&tx))
			if (err == nil) != (exp.Class == model.OK || exp.Class == model.Soft) {
				// out of C08's scope (C06 owns it): stop generating
				return script
			}
			script = append(script, cop{kind: copInject, txn: tx})
		}
		switch t.Pick("crash-extra-op", 6, 1, 1, 1, 1, 1) {
		case 1:
			script = append(script, cop{kind: copRefresh})
		case 2:
			script = append(script, cop{kind: copRemoveInvalid})
		case 3:
			script = append(script, cop{kind: copAnnounce})
		case 4:
			script = append(script, cop{kind: copRestart})
		case 5:
			script = append(script, cop{kind: copRebuildIndex})
		}
		time.Sleep(time.Duration(1+t.Int("crash-gap", 30)) * time.Second)
		sb, err := pub.v.CreateAndExecuteBlock()
		if err != nil {
			continue
		}
		mb := mBlock(&sb)
		if v := pub.m.CheckBlock(&mb); v.V != model.Accept {
			return script
		}
		pub.m.Apply(mb)
		script = append(script, cop{kind: copBlock, blk: mb})
	}
	script = append(script, cop{kind: copRemoveInvalid})
	return script
}

func runCrash(c *sim.Ctx) {
	w := newWorld(c, 0, worldOpts{hugeWeight: 0})
	defer w.closeAll()
	script := genScript(c, w)
	nb := 0
	for _, o := range script {
		if o.kind == copBlock {
			nb++
		}
	}
	c.Sample = append(c.Sample, fmt.Sprintf("script: %d ops, %d blocks", len(script), nb))

	// ---- the twin that never crashes, with an image after every commit ----
	twin := &crashNode{w: w, twin: true, path: filepath.Join(c.Dir, "twin.db"), cfg: w.visorConfig(false)}
	var images []image
	curOp := 0
	record := func(name string) {
		data, err := os.ReadFile(twin.path)
		if err != nil {
			sim.Harnessf("read image: %v", err)
		}
		if len(images) > 0 && bytes.Equal(images[len(images)-1].data, data) {
			return
		}
		images = append(images, image{op: curOp, name: name, data: data})
		if os.Getenv("VERIF_LOG_DIR") != "" {
			var ps []string
			for p := 0; p*pageSize < len(data); p++ {
				sum := sha256.Sum256(data[p*pageSize : min(len(data), (p+1)*pageSize)])
				ps = append(ps, fmt.Sprintf("%x", sum[:3]))
			}
			c.Logf("image %d (%s) pages %v", len(images)-1, name, ps)
		}
	}
	dbutil.VerifAfterUpdate = func(db *dbutil.DB, name string, err error) {
		if err == nil && db.Path() == twin.path {
			record(name)
		}
	}
	defer func() { dbutil.VerifAfterUpdate = nil }()
	images = append(images, image{op: 0, name: "(no file)", data: nil})
	if err := twin.startup(svPlain); err != nil {
		sim.Harnessf("twin failed to start: %v", err)
	}
	for i := range script {
		curOp = i
		if err := twin.apply(&script[i]); err != nil && (script[i].kind == copBlock || twin.v == nil) {
			// The never-crashed twin itself misbehaves: not a crash-recovery matter
			// (C04/C07 own it).  End the run without a verdict.
			c.Count("desync.twin")
			c.Notef("twin failed at op %d (%s): %v", i, copNames[script[i].kind], err)
			dbutil.VerifAfterUpdate = nil
			twin.stop()
			return
		}
	}
	dbutil.VerifAfterUpdate = nil
	want, err := logicalDump(twin.db)
	if err != nil {
		sim.Harnessf("dump twin: %v", err)
	}
	twin.stop()
	c.CountN("crash.commits_recorded", int64(len(images)))

	// ---- crash states ---------------------------------------------------
	type state struct {
		data  []byte
		label string
		k     int
	}
	var states []state
	for k := range images {
		states = append(states, state{images[k].data, fmt.Sprintf("boundary after commit %d (%s, op %d:%s)", k, images[k].name, images[k].op, copNames[script[images[k].op].kind]), k})
	}
	c.CountN("fault.crash_at_commit_boundary", int64(len(images)))
	// database creation is a commit of its own kind: the file is created empty, then its first four pages are
	// written with one write and synced.  A crash in between leaves an empty file or a prefix of that write.
	if initImg := freshDBImage(c); len(initImg) > 0 {
		states = append(states, state{[]byte{}, "database creation: file created, nothing written yet", 0})
		c.Count("fault.crash_during_db_creation")
		cuts := []int{512, pageSize, 2 * pageSize, 3 * pageSize, 1 + c.T.Int("creation-cut", len(initImg)-1)}
		for _, cut := range cuts[c.T.Int("creation-cut-from", len(cuts)):] {
			if cut < len(initImg) {
				states = append(states, state{initImg[:cut], fmt.Sprintf("database creation: first write torn after %d of %d bytes", cut, len(initImg)), 0})
				c.Count("fault.crash_during_db_creation")
			}
		}
	}
	tornBudget := 40
	if c.Tier == "thorough" {
		tornBudget = 160
	}
	for k := 1; k+1 <= len(images)-1 && tornBudget > 0; k++ {
		if !c.T.Chance("torn-this-commit", 1, 2) {
			continue
		}
		a, b := images[k].data, images[k+1].data
		if len(a) == 0 || len(b) < len(a) {
			continue
		}
		base := make([]byte, len(b)) // the file is grown (and synced) before pages are written
		copy(base, a)
		var dirty []int
		meta := -1
		for p := 0; p*pageSize < len(b); p++ {
			lo, hi := p*pageSize, (p+1)*pageSize
			if hi > len(b) {
				hi = len(b)
			}
			if !bytes.Equal(base[lo:hi], b[lo:hi]) {
				if p < 2 {
					meta = p
				} else {
					dirty = append(dirty, p)
				}
			}
		}
		mk := func(pages []int, tornPage, tornAt int, withMetaPrefix int) []byte {
			d := append([]byte{}, base...)
			for _, p := range pages {
				copy(d[p*pageSize:], b[p*pageSize:min(len(b), (p+1)*pageSize)])
			}
			if tornPage >= 0 {
				copy(d[tornPage*pageSize:tornPage*pageSize+tornAt], b[tornPage*pageSize:tornPage*pageSize+tornAt])
			}
			if withMetaPrefix > 0 && meta >= 0 {
				copy(d[meta*pageSize:meta*pageSize+withMetaPrefix], b[meta*pageSize:meta*pageSize+withMetaPrefix])
			}
			return d
		}
		// ordered prefixes of the dirty data pages (all of them when few, sampled otherwise)
		for j := 0; j <= len(dirty) && tornBudget > 0; j++ {
			if len(dirty) > 10 && !c.T.Chance("torn-prefix-sample", 1, 3) {
				continue
			}
			states = append(states, state{mk(dirty[:j], -1, 0, 0), fmt.Sprintf("inside commit %d->%d (%s): %d of %d data pages written, meta not", k, k+1, images[k+1].name, j, len(dirty)), k})
			c.Count("fault.crash_inside_commit_page_prefix")
			tornBudget--
			if j < len(dirty) && c.T.Chance("torn-page", 1, 3) {
				at := []int{512, 1024, 2048, 3584}[c.T.Int("torn-at", 4)]
				states = append(states, state{mk(dirty[:j], dirty[j], at, 0), fmt.Sprintf("inside commit %d->%d: %d pages + page %d torn at %d", k, k+1, j, dirty[j], at), k})
				c.Count("fault.torn_data_page")
				tornBudget--
			}
		}
		// an arbitrary subset (re-ordered writes inside the data phase)
		if len(dirty) > 1 {
			var sub []int
			for _, p := range dirty {
				if c.T.Bool("torn-subset") {
					sub = append(sub, p)
				}
			}
			states = append(states, state{mk(sub, -1, 0, 0), fmt.Sprintf("inside commit %d->%d: subset %v of data pages %v", k, k+1, sub, dirty), k})
			c.Count("fault.crash_inside_commit_page_subset")
			tornBudget--
		}
		// all data pages durable, meta page torn inside its first sector
		if meta >= 0 {
			r := []int{8, 24, 40, 56, 72}[c.T.Int("torn-meta-at", 5)]
			states = append(states, state{mk(dirty, -1, 0, r), fmt.Sprintf("inside commit %d->%d: data pages durable, meta page %d torn after %d bytes", k, k+1, meta, r), k})
			c.Count("fault.torn_meta_page")
			tornBudget--
		}
	}

	// ---- restart from every state ---------------------------------------
	for si, st := range states {
		if c.Failed() {
			return
		}
		c.Step = si + 1
		variant := c.T.Pick("startup-variant", 2, 2, 1)
		var ih [8]byte
		sum := sha256.Sum256(st.data)
		copy(ih[:], sum[:8])
		c.State(binary.LittleEndian.Uint64(ih[:]), uint64(variant))
		c.Count("crash.states")
		c.Count("startup." + svNames[variant])
		n := &crashNode{w: w, path: filepath.Join(c.Dir, fmt.Sprintf("crash%d.db", si)), cfg: w.visorConfig(false)}
		if st.data != nil {
			if err := os.WriteFile(n.path, st.data, 0o600); err != nil {
				sim.Harnessf("write crash image: %v", err)
			}
		}
		// the restart runs in its own goroutine so that a deadlock shows up as a
		// simulated-time timeout (every goroutine durably blocked => the fake clock jumps)
		done := make(chan error, 1)
		go func() { done <- n.startup(variant) }()
		var serr error
		select {
		case serr = <-done:
		case <-time.After(time.Hour):
			c.Tainted = true
			c.Violate("restart-hang", "hang:"+svNames[variant]+":"+hangWhere(st.label), "restart (%s) on the database left by a crash at [%s] did not return within one simulated hour (deadlock)", svNames[variant], st.label)
			return
		}
		c.Kind(byte(variant+1), serr == nil)
		c.Logf("state %d [%s] startup=%s -> %v", si, st.label, svNames[variant], serr)
		if serr != nil {
			c.Violate("restart-failed", "restart-error:"+svNames[variant], "restart (%s) failed on the database left by a crash at [%s]: %v", svNames[variant], st.label, serr)
			return
		}
		// independent verification always passes after a successful start
		if err := visor.CheckDatabase(n.db, w.pubKey.pub, nil); err != nil {
			n.stop()
			c.Violate("verify-after-restart", "checkdatabase-after-restart", "the node's own verification fails after restarting from [%s]: %v", st.label, err)
			return
		}
		// peers re-deliver everything the node may be missing
		for i := range script {
			_ = n.apply(&script[i])
			if n.v == nil {
				c.Violate("restart-failed", "restart-inside-replay", "a scripted restart failed while catching up from [%s]", st.label)
				return
			}
		}
		got, err := logicalDump(n.db)
		n.stop()
		os.Remove(n.path)
		if err != nil {
			sim.Harnessf("dump: %v", err)
		}
		if d := diffDump(want, got); len(d) > 0 {
			c.Violate("diverged-after-recovery", "buckets:"+fmt.Sprint(d), "after a crash at [%s], restart (%s) and re-delivery of the script the node differs from the never-crashed twin in buckets %v", st.label, svNames[variant], d)
			return
		}
	}
}

// freshDBImage is what the node's OpenDB writes when it creates a database file.
func freshDBImage(c *sim.Ctx) []byte {
	p := filepath.Join(c.Dir, "fresh.db")
	db, err := visor.OpenDB(p, false)
	if err != nil {
		sim.Harnessf("OpenDB on a new path: %v", err)
	}
	db.Close()
	b, err := os.ReadFile(p)
	os.Remove(p)
	if err != nil {
		sim.Harnessf("read fresh image: %v", err)
	}
	return b
}

// hangWhere reduces a state label to its kind so that the signature of a
// hang does not depend on commit numbers.
func hangWhere(label string) string {
	for i, ch := range label {
		if ch == '(' {
			j := i
			for j < len(label) && label[j] != ',' && label[j] != ')' {
				j++
			}
			return label[i+1 : j]
		}
	}
	return "?"
}
