package e1

import (
	"encoding/binary"
	"fmt"
	"strings"

	"github.com/skycoin/skycoin/src/cipher"
	"github.com/skycoin/skycoin/src/daemon"

	"verifsim/sim"
)

// C22: framing and parsing of the peer byte stream.  One real node, one
// introduced scripted peer.  Well-formed message sequences are written as one
// byte stream cut at tape-chosen offsets; what the node did with them is
// observed through its replies, which must correspond one-to-one and in order
// to the messages sent.  Then malformed streams: every one must end in a
// disconnect, with everything before the bad frame processed and nothing
// after it.

type sentMsg struct {
	kind   string
	bytes  []byte
	expect string // the reply this message must produce ("" = none), as "PREFIX:detail"
}

func (s *peerSim) framingMessage(i int) sentMsg {
	t := s.c.T
	head := uint64(len(s.chain))
	switch t.Pick("frame-msg", 4, 4, 3, 2, 2, 2) {
	case 0:
		return sentMsg{"PING", frame("PING", nil), "PONG:"}
	case 1:
		last := uint64(t.Int("getb-last", len(s.chain)+2))
		n := 1 + uint64(t.Int("getb-n", 4))
		m := sentMsg{kind: fmt.Sprintf("GETB(%d,%d)", last, n), bytes: frame("GETB", body(daemon.NewGetBlocksMessage(last, n)))}
		if last < head {
			m.expect = fmt.Sprintf("GIVB:%d", last+1) // first block of the reply
		}
		return m
	case 2:
		seq := uint64(t.Int("annb-seq", len(s.chain)+4))
		m := sentMsg{kind: fmt.Sprintf("ANNB(%d)", seq), bytes: frame("ANNB", body(daemon.NewAnnounceBlocksMessage(seq)))}
		if seq > head {
			m.expect = fmt.Sprintf("GETB:%d", head)
		}
		return m
	case 3:
		return sentMsg{"PONG", frame("PONG", nil), ""}
	case 4:
		// announce a transaction the node cannot know: it must ask for it
		var h cipher.SHA256
		binary.LittleEndian.PutUint64(h[:], uint64(i)+1)
		h[31] = 0xEE
		m := &daemon.AnnounceTxnsMessage{Transactions: []cipher.SHA256{h}}
		return sentMsg{kind: "ANNT", bytes: frame("ANNT", body(m)), expect: "GETT:" + h.Hex()[:16]}
	}
	return sentMsg{"GIVP", frame("GIVP", body(&daemon.GivePeersMessage{})), ""}
}

// describeReply renders a frame the node sent in the same "PREFIX:detail" form.
func describeReply(f []byte) string {
	p, b, ok := parseFrame(f)
	if !ok {
		return "?"
	}
	switch p {
	case "PONG":
		return "PONG:"
	case "GIVB":
		var m daemon.GiveBlocksMessage
		if _, err := m.Decode(b); err != nil || len(m.Blocks) == 0 {
			return "GIVB:?"
		}
		return fmt.Sprintf("GIVB:%d", m.Blocks[0].Head.BkSeq)
	case "GETB":
		var m daemon.GetBlocksMessage
		if _, err := m.Decode(b); err != nil {
			return "GETB:?"
		}
		return fmt.Sprintf("GETB:%d", m.LastBlock)
	case "GETT":
		var m daemon.GetTxnsMessage
		if _, err := m.Decode(b); err != nil || len(m.Transactions) == 0 {
			return "GETT:?"
		}
		return "GETT:" + m.Transactions[0].Hex()[:16]
	}
	return p + ":"
}

func runFraming(c *sim.Ctx) {
	s := newPeerSimOpts(c, 2+c.T.Int("framing-blocks", 4), func(ns *netSim) {
		ns.knobs.maxIncomingMsgLen = []int{4096, 65536, 1024 * 1024}[c.T.Pick("knob-max-in-len", 2, 2, 1)]
		if c.T.Chance("small-event-queue", 1, 3) {
			// a node whose run loop is behind: the queue between the connection goroutines and the run loop holds only a
			// few events, so a burst fills it and the sender has to wait (no message may be lost for that)
			ns.knobs.eventQueue = 1 + c.T.Int("event-queue", 8)
		}
	})
	defer s.close()
	t := c.T
	if len(s.chain) == 0 {
		c.Count("desync.short_chain")
		return
	}
	rounds := t.Range("framing-rounds", 1, 5)
	c.Sample = append(c.Sample, fmt.Sprintf("%d rounds of message bursts / malformed streams against one node, max incoming length %d", rounds, s.ns.knobs.maxIncomingMsgLen))
	for c.Step = 1; c.Step <= rounds && !c.Failed(); c.Step++ {
		p := s.connectIn(s.pickAddr())
		if p == nil {
			continue
		}
		in := s.drawIntro(true)
		in.listenPort = 7001
		s.ns.deliver(p.l, s.introBytes(in), nil)
		s.ns.pump()
		if p.l.dead || stateOf(s.n.dm.VerifConnections(), p.addr) != daemon.ConnectionStateIntroduced {
			c.Count("desync.not_introduced")
			s.ns.peerClosed(p.l, "retry")
			s.ns.pump()
			continue
		}
		base := len(p.received)
		// ---- a burst of well-formed messages in arbitrary chunks ----
		n := 1 + t.Int("burst-len", 31)
		var msgs []sentMsg
		var stream []byte
		var bounds []int
		for i := 0; i < n; i++ {
			m := s.framingMessage(i)
			msgs = append(msgs, m)
			stream = append(stream, m.bytes...)
			bounds = append(bounds, len(stream))
		}
		bad, badStream, badWhy := s.drawBadTail()
		if s.ns.knobs.eventQueue > 0 {
			// runs with a short event queue deliver from a goroutine of their own; they stick to well-formed streams
			// (the bookkeeping of disconnect reasons below assumes the harness's own goroutine)
			bad, badStream, badWhy = "", nil, ""
		}
		full := append(append([]byte{}, stream...), badStream...)
		if bad != "" && bad != "eof-mid-frame" {
			// something well-formed after the bad frame: it must never be processed
			full = append(full, frame("PING", nil)...)
		}
		var cuts []int
		switch t.Pick("chunking", 2, 3, 2, 2) {
		case 0: // one read
		case 1: // random cut points
			for i := 0; i < 1+t.Int("n-cuts", 12); i++ {
				cuts = append(cuts, 1+t.Int("cut", len(full)-1))
			}
		case 2: // cuts inside length prefixes / ids and just after frame ends
			for _, b := range bounds {
				if t.Bool("cut-near-boundary") {
					cuts = append(cuts, b-1+t.Int("cut-off", 8))
				}
			}
		case 3: // byte by byte for a stretch
			st := t.Int("bytewise-start", len(full))
			for i := st; i < st+40 && i < len(full); i++ {
				cuts = append(cuts, i)
			}
		}
		c.Count("fault.chunked_stream")
		c.CountN("probe.chunks", int64(len(cuts)+1))
		if s.ns.knobs.eventQueue > 0 && bad == "" {
			// (well-formed streams only: the bookkeeping of disconnect reasons below assumes the harness's own goroutine)
			s.ns.deliverUnderBackPressure(p.l, full, cuts)
		} else {
			s.ns.deliver(p.l, full, cuts)
		}
		s.ns.pump()
		var got []string
		for _, f := range p.received[base:] {
			d := describeReply(f)
			if strings.HasPrefix(d, "DISC") || strings.HasPrefix(d, "GIVP") {
				continue
			}
			got = append(got, d)
		}
		var want []string
		var kinds []string
		for _, m := range msgs {
			kinds = append(kinds, m.kind)
			if m.expect != "" {
				want = append(want, m.expect)
			}
		}
		for _, m := range msgs {
			c.Kind(m.kind[0]&0x3f, m.expect != "")
		}
		c.Kind(byte(len(cuts))&0x3f, bad == "")
		c.Kind(1, !p.l.dead)
		c.Logf("burst %v + bad=%q cuts=%d -> replies %v (expected %v) dead=%v reason=%v", kinds, bad, len(cuts), got, want, p.l.dead, s.reasons[p.l])
		// A stream that ends in a malformed frame is not "a sequence of well-formed messages":
		// the statement only demands the disconnect.  What the node did handle must still be a
		// prefix of what was sent, in order, and nothing after the bad frame.
		if bad != "" && bad != "eof-mid-frame" && len(got) <= len(want) && strings.Join(got, " ") == strings.Join(want[:len(got)], " ") {
			want = want[:len(got)]
		}
		if strings.Join(got, " ") != strings.Join(want, " ") {
			sig := "order-or-content"
			switch {
			case len(got) < len(want):
				sig = "message-lost"
			case len(got) > len(want):
				sig = "extra-processing"
			}
			if bad != "" {
				sig += ":with-bad-tail"
			}
			c.Violate("messages-not-delivered-in-order", sig, "sent %v in %d chunks; the replies show the node handled %v, exactly %v was due (bad tail: %q)", kinds, len(cuts)+1, got, want, bad)
			return
		}
		c.Count("probe.burst_replies_matched")
		if bad == "" {
			if p.l.dead {
				c.Violate("disconnected-on-well-formed-stream", "wellformed", "a well-formed message sequence (%v) got the peer disconnected: %v", kinds, s.reasons[p.l])
				return
			}
			s.ns.peerClosed(p.l, "round over")
			s.ns.pump()
			continue
		}
		c.Count("fault.malformed_stream." + bad)
		if bad == "eof-mid-frame" {
			s.ns.peerClosed(p.l, "eof")
			s.ns.pump()
			continue
		}
		if badWhy == "undecided" {
			c.Undecided++
			if !p.l.dead {
				s.ns.peerClosed(p.l, "round over")
				s.ns.pump()
			}
			continue
		}
		if !p.l.dead {
			c.Violate("no-disconnect-on-malformed-stream", bad, "a stream with [%s] did not disconnect the peer", bad)
			return
		}
		if r := fmt.Sprint(s.reasons[p.l]); !strings.Contains(r, badWhy) {
			c.Violate("wrong-disconnect-reason", bad, "a stream with [%s] disconnected the peer with reason %q, expected one about %q", bad, r, badWhy)
			return
		}
	}
}

// drawBadTail returns a malformed continuation of the stream (or none), its
// name and a fragment of the disconnect reason it must produce.
func (s *peerSim) drawBadTail() (string, []byte, string) {
	t := s.c.T
	max := s.ns.knobs.maxIncomingMsgLen
	le := func(v uint32) []byte { b := make([]byte, 4); binary.LittleEndian.PutUint32(b, v); return b }
	switch t.Pick("bad-tail", 5, 2, 2, 2, 2, 2, 2, 1) {
	case 1: // length prefix below the minimum (a message id needs 4 bytes)
		return "length-below-minimum", append(le(uint32(t.Draw("short-len", 4))), t.Bytes("short-tail", 8)...), "Invalid message length"
	case 2: // length prefix above the configured maximum
		v := uint32(max) + 1 + uint32(t.Draw("over-len", 3))
		if t.Bool("huge-len") {
			v = 0xFFFFFFFF - uint32(t.Draw("huge-len-off", 3))
		}
		return "length-above-maximum", append(le(v), t.Bytes("over-tail", 16)...), "Invalid message length"
	case 3: // unknown message id
		return "unknown-id", frame("XYZ"+string(rune('A'+t.Int("unk", 20))), t.Bytes("unk-body", t.Int("unk-len", 12))), "Unknown message ID"
	case 4: // body too short to decode
		b := body(daemon.NewGetBlocksMessage(1, 1))
		return "undecodable-body", frame("GETB", b[:t.Int("short-body", len(b))]), "Malformed message body"
	case 5: // trailing bytes after a complete body
		b := body(daemon.NewGetBlocksMessage(1, 1))
		return "trailing-bytes", frame("GETB", append(b, t.Bytes("trail", 1+t.Int("trail-len", 6))...)), "did not fully decode"
	case 6: // the peer goes away in the middle of a frame
		f := frame("GETB", body(daemon.NewGetBlocksMessage(0, 1)))
		return "eof-mid-frame", f[:1+t.Int("eof-at", len(f)-1)], ""
	case 7: // noise
		nz := t.Bytes("noise", 8+t.Int("noise-len", 64))
		l := binary.LittleEndian.Uint32(nz)
		if l < 4 || int64(l) > int64(max) {
			return "noise", nz, "Invalid message length"
		}
		return "noise", nz, "undecided"
	}
	return "", nil, ""
}
