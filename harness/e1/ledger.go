package e1

import (
	"bytes"
	"fmt"
	"math/big"
	"sort"
	"strings"
	"time"

	"github.com/skycoin/skycoin/src/cipher"
	"github.com/skycoin/skycoin/src/coin"
	"github.com/skycoin/skycoin/src/transaction"
	"github.com/skycoin/skycoin/src/visor"
	"github.com/skycoin/skycoin/src/visor/dbutil"

	"verifsim/model"
	"verifsim/sim"
)

// event kinds (for fingerprints)
const (
	kInject = iota + 1
	kInjectMut
	kReinject
	kCreate
	kDeliver
	kForge
	kRefresh
	kRemoveInvalid
	kClock
	kRestart
	kQuery
	kGossip
	kIOFault
)

// reason families: which property owns which block-rejection reason
var coinReasons = map[string]bool{"txn: coins not conserved": true, "txn: output coins overflow": true, "txn: input coins overflow": true, "txn: zero coin output": true}
var spendReasons = map[string]bool{"txn: input not unspent": true, "double spend in block": true, "duplicate output in block": true,
	"output id collides with unspent": true, "txn: duplicate input": true, "txn: duplicate output": true}
var hourReasons = map[string]bool{"txn: insufficient hours": true, "txn: input hours sum overflow": true}

type ledgerSim struct {
	beforeExec  func()                // runs once, right before the next block is handed to a node
	refused     map[int][]model.Block // per node: blocks it has refused so far (they may be offered again, see opReoffer)
	early       map[model.Hash]bool   // header hashes of refused blocks that were ahead of the node's head when refused
	c           *sim.Ctx
	w           *world
	prop        string
	known       []model.Txn   // every transaction generated so far
	pubBlocks   []model.Block // blocks created by the real publisher node (index = seq-1)
	desync      bool
	lastHours   map[model.Hash]*big.Int // C03 monotonicity: last observed accrued hours per unspent (publisher node)
	lastHoursAt uint64
}

func (s *ledgerSim) now() uint64 { return uint64(time.Now().UTC().Unix()) }

// clockLimit: the fake clock counts nanoseconds in an int64 (it overflows in 2262, and go1.26.8's bubble timers
// crash the process with "bad g->status in ready" when a sleep runs past that); jumps stop short of it.  Block
// times beyond it are still exercised, because forged blocks carry arbitrary 64-bit times.
var clockLimit = time.Date(2200, 1, 1, 0, 0, 0, 0, time.UTC)

func (s *ledgerSim) advance(d time.Duration) {
	if rest := clockLimit.Sub(time.Now()); d > rest {
		d = rest
		s.c.Count("probe.clock_limit_reached")
	}
	if d > 0 {
		time.Sleep(d)
		s.c.SimNanos += int64(d)
	}
}

func (s *ledgerSim) owns(reason string) bool {
	switch s.prop {
	case "C04":
		return true
	case "C01":
		return coinReasons[reason]
	case "C02":
		return spendReasons[reason]
	case "C03":
		return hourReasons[reason]
	}
	return false
}

// runLedger is the engine body for C01..C07.
func runLedger(c *sim.Ctx) {
	s := &ledgerSim{c: c, prop: c.Property, lastHours: map[model.Hash]*big.Int{}}
	followers := c.T.Range("followers", 0, 2)
	if (s.prop == "C05" || s.prop == "C04") && followers == 0 {
		followers = 1
	}
	opt := worldOpts{hugeWeight: 1}
	if s.prop == "C01" || s.prop == "C03" {
		opt.hugeWeight = 3
	}
	s.w = newWorld(c, followers, opt)
	defer s.w.closeAll()

	steps := c.T.Range("steps", 20, 120)
	if c.Tier == "thorough" {
		steps = c.T.Range("steps", 20, 300)
	}
	c.Sample = append(c.Sample, fmt.Sprintf("nodes=%d clients=%d genesis=%d steps=%d", len(s.w.nodes), len(s.w.clients), s.w.genCoins, steps))
	s.invariants()
	for c.Step = 1; c.Step <= steps && !c.Failed() && !s.desync; c.Step++ {
		s.step()
		if c.Failed() || s.desync {
			break
		}
		s.invariants()
		pub := s.w.nodes[0]
		c.State(uint64(len(pub.m.Chain)), uint64(len(pub.m.Pool)), uint64(len(pub.m.Unspent)), uint64(len(s.w.nodes)))
	}
	if !c.Failed() && !s.desync && s.prop == "C04" {
		s.checkDatabases()
	}
}

func (s *ledgerSim) pickNode() *node {
	if s.prop == "C05" {
		// only the publisher's pool matters; followers receive its blocks
		return s.w.nodes[0]
	}
	return s.w.nodes[s.c.T.Int("node", len(s.w.nodes))]
}

func (s *ledgerSim) step() {
	t := s.c.T
	// per-property workload mix
	type wt struct{ inject, mut, re, create, deliver, forge, refresh, rminv, clock, restart, query, gossip int }
	mix := wt{10, 4, 2, 5, 5, 4, 1, 1, 3, 1, 0, 2}
	switch s.prop {
	case "C01", "C02":
		mix = wt{10, 6, 2, 5, 5, 8, 1, 1, 2, 1, 0, 2}
	case "C03":
		mix = wt{8, 5, 1, 4, 4, 10, 1, 1, 6, 1, 2, 1}
	case "C04":
		mix = wt{8, 2, 1, 4, 5, 14, 1, 1, 2, 1, 0, 1}
	case "C05":
		mix = wt{16, 5, 2, 6, 0, 0, 2, 1, 3, 0, 0, 0}
	case "C06":
		mix = wt{10, 8, 5, 4, 4, 4, 5, 5, 3, 2, 0, 4}
	case "C07":
		mix = wt{10, 3, 1, 5, 4, 3, 1, 1, 2, 3, 10, 2}
	}
	if s.prop == "C05" && t.Chance("tie-burst", 1, 12) {
		s.opTieBurst()
		return
	}
	if t.Chance("io-fault", 1, 25) {
		s.opIOFault()
		return
	}
	if s.prop != "C05" && t.Chance("read-overlaps-write", 1, 25) {
		s.opOverlap()
		return
	}
	switch t.Pick("op", mix.inject, mix.mut, mix.re, mix.create, mix.deliver, mix.forge, mix.refresh, mix.rminv, mix.clock, mix.restart, mix.query, mix.gossip) {
	case 0:
		s.opInject(false)
	case 1:
		s.opInject(true)
	case 2:
		s.opReinject()
	case 3:
		s.opCreateBlock()
	case 4:
		s.opDeliver()
	case 5:
		s.opForge()
	case 6:
		s.opRefresh()
	case 7:
		s.opRemoveInvalid()
	case 8:
		s.opClock()
	case 9:
		s.opRestart()
	case 10:
		s.opQuery()
	case 11:
		s.opGossip()
	}
}

var errSimIO = fmt.Errorf("simulated disk I/O error at the start of a database transaction")

// opIOFault: the next database transaction of one node fails before it begins (hook H1).  The operation that
// needed it must report an error, the database content must be exactly what it was, and - because the shadow
// model is not told about the operation - everything the node answers afterwards must still agree with the
// model, i.e. nothing of the failed operation may survive in memory either.
func (s *ledgerSim) opIOFault() {
	c := s.c
	t := c.T
	n := s.pickNode()
	fired := 0
	// the transaction fails before it begins, or - everything the operation wanted to write is written - when it commits
	atCommit := t.Bool("io-at-commit")
	hook := func(db *dbutil.DB, name string) error {
		if db.Path() != n.path || fired > 0 {
			return nil
		}
		fired++
		if atCommit {
			c.Logf("I/O error injected into the commit of n%d transaction %q", n.id, name)
			return errSimCommit
		}
		c.Logf("I/O error injected into n%d transaction %q", n.id, name)
		return errSimIO
	}
	if atCommit {
		dbutil.VerifBeforeCommit = hook
	} else {
		dbutil.VerifBeforeUpdate = hook
	}
	defer func() { dbutil.VerifBeforeUpdate, dbutil.VerifBeforeCommit = nil, nil }()
	before := n.dbFingerprint(nil)
	var err error
	what := ""
	// outputs the failed operation would have created: none of them may be reported as unspent afterwards
	var wouldCreate []model.Hash
	outputsOf := func(txs []model.Txn) {
		for i := range txs {
			h := txs[i].Hash()
			for _, o := range txs[i].Out {
				wouldCreate = append(wouldCreate, model.UxID(h, o))
			}
		}
	}
	switch t.Pick("io-op", 4, 4, 2, 2) {
	case 0: // a valid new transaction
		tx, ok := s.w.mkSpend(n.m, false)
		if !ok {
			return
		}
		what = "inject " + short(tx.Hash())
		if t.Bool("io-user") {
			_, _, _, err = n.v.InjectUserTransaction(cTxn(&tx))
		} else {
			_, _, err = n.v.InjectForeignTransaction(cTxn(&tx))
		}
		s.known = append(s.known, tx)
	case 1: // the next block
		if n.publisher {
			s.advance(time.Duration(1+t.Int("create-gap", 20)) * time.Second)
			what = "create-block"
			for _, h := range n.m.PoolHashes() {
				outputsOf([]model.Txn{n.m.Pool[h].Txn})
			}
			_, err = n.v.CreateAndExecuteBlock()
			if err != nil && fired == 0 {
				return // nothing to create: no transaction was attempted
			}
		} else {
			next := len(n.m.Chain)
			if next < 1 || next > len(s.pubBlocks) {
				return
			}
			what = fmt.Sprintf("execute block %d", next)
			outputsOf(s.pubBlocks[next-1].Txns)
			err = n.v.ExecuteSignedBlock(cBlock(&s.pubBlocks[next-1]))
		}
	case 2:
		what = "refresh"
		_, err = n.v.RefreshUnconfirmed()
	case 3:
		what = "remove-invalid"
		_, err = n.v.RemoveInvalidUnconfirmed()
	}
	if fired == 0 {
		// the operation needed no write transaction (e.g. refused earlier): then it must not have written either
		if n.dbFingerprint(nil) != before && err != nil {
			c.Violate("failed-op-changed-db", strings.Fields(what)[0], "n%d %s returned %v but the database content changed", n.id, what, err)
		}
		if err == nil {
			// it succeeded without writing: only possible when there was nothing to do; the model is not updated, so any
			// real effect shows up in the invariants
			c.Count("probe.io_fault_not_reached")
		}
		return
	}
	if atCommit {
		c.Count("fault.io_error_at_commit")
	} else {
		c.Count("fault.io_error_at_txn_begin")
	}
	c.Kind(kIOFault, err != nil)
	c.Logf("n%d %s with failing disk -> %v", n.id, what, err)
	if err == nil {
		c.Violate("io-error-swallowed", strings.Fields(what)[0], "n%d %s reported success although its database transaction failed with an I/O error", n.id, what)
		return
	}
	if n.dbFingerprint(nil) != before {
		c.Violate("failed-op-changed-db", strings.Fields(what)[0], "n%d %s failed with %v but the database content changed", n.id, what, err)
		return
	}
	s.checkByHash(n, wouldCreate, "after "+what+" failed")
}

var errSimCommit = fmt.Errorf("simulated disk I/O error at the commit of a database transaction")

// checkByHash: looking outputs up by their id agrees with the unspent set of the accepted chain - an output the
// chain has not created, or has spent, is not returned.
func (s *ledgerSim) checkByHash(n *node, ids []model.Hash, when string) {
	c := s.c
	for _, id := range ids {
		_, want := n.m.Unspent[id]
		uxs, err := n.v.GetUnspentOutputs([]cipher.SHA256{cipher.SHA256(id)})
		got := err == nil && len(uxs) == 1
		if got != want {
			what := "an output that is not in the unspent set of the accepted chain is returned as unspent"
			sig := "phantom-or-spent-output-returned"
			if want {
				what, sig = "an unspent output of the accepted chain is not found", "unspent-output-not-found"
			}
			c.Violate("unspent-lookup-disagrees", sig, "n%d %s: lookup of output %s by id: %s (err=%v)", n.id, when, short(id), what, err)
			return
		}
		c.Count("probe.unspent_lookup_by_id_compared")
	}
}

// opOverlap: a read-only query of a node is in progress - its database snapshot is taken - while the node
// executes a block or admits a transaction; then the query reads on.  A real node answers API requests on their own
// goroutines while the daemon loop writes, and the database lets a reader that started earlier see the old state
// for as long as it runs.  What the query returns is its own business (the old state); the point is what the node
// believes afterwards: nothing the late reader saw may leak into what later queries and checks see.
func (s *ledgerSim) opOverlap() {
	c := s.c
	t := c.T
	n := s.pickNode()
	if !n.publisher && t.Chance("overlap-block-vs-its-txn", 1, 4) {
		// the operation in progress is the execution of the publisher's next block; while it holds a read snapshot (if
		// it opens one at all before it writes) one of the block's own transactions arrives from a peer
		next := len(n.m.Chain)
		if next >= 1 && next <= len(s.pubBlocks) && len(s.pubBlocks[next-1].Txns) > 0 {
			b := s.pubBlocks[next-1]
			tx := b.Txns[t.Int("overlap-block-txn", len(b.Txns))]
			fired := false
			// armed right before the node is handed the block (the harness's own look at the node comes first)
			s.beforeExec = func() {
				dbutil.VerifInView = func(db *dbutil.DB, name string) {
					if fired || db.Path() != n.path {
						return
					}
					fired = true
					dbutil.VerifInView = nil
					if _, pooled := n.m.Pool[tx.Hash()]; !pooled {
						s.submitTxn(n, tx, false, kInject, "inject-during-block-execution")
					}
				}
			}
			s.submitBlock(n, b, "publisher-block:next", kDeliver)
			s.beforeExec = nil
			dbutil.VerifInView = nil
			if fired {
				c.Count("fault.block_execution_overlaps_arrival_of_its_transaction")
			}
			return
		}
	}
	var ids []model.Hash
	for _, h := range n.m.PoolHashes() {
		ids = append(ids, n.m.Pool[h].Txn.In...)
	}
	if !n.publisher {
		if next := len(n.m.Chain); next >= 1 && next <= len(s.pubBlocks) {
			for i := range s.pubBlocks[next-1].Txns {
				ids = append(ids, s.pubBlocks[next-1].Txns[i].In...)
			}
		}
	}
	if owned := s.w.ownedUnspents(n.m); len(owned) > 0 {
		ids = append(ids, owned[t.Int("overlap-extra", len(owned))])
	}
	if len(ids) == 0 {
		return
	}
	fired := false
	// the write happens when the query opens its k-th read transaction (a query that opens only one has a single
	// consistent snapshot by construction; one that opens several may see the block between two of them)
	skip := t.Pick("overlap-at-view", 5, 1, 1, 1)
	before := n.m.Clone()
	dbutil.VerifInView = func(db *dbutil.DB, name string) {
		if fired || db.Path() != n.path {
			return
		}
		if skip > 0 {
			skip--
			return
		}
		fired = true
		dbutil.VerifInView = nil
		c.Logf("n%d: query %q has its snapshot; the node goes on working", n.id, name)
		switch {
		case n.publisher:
			s.opCreateBlock()
		case len(n.m.Chain) >= 1 && len(n.m.Chain) <= len(s.pubBlocks):
			s.submitBlock(n, s.pubBlocks[len(n.m.Chain)-1], "publisher-block:during-query", kDeliver)
		default:
			if tx, ok := s.w.mkSpend(n.m, false); ok {
				s.submitTxn(n, tx, false, kInject, "inject-during-query")
			}
		}
	}
	defer func() { dbutil.VerifInView = nil }()
	var cids []cipher.SHA256
	for _, id := range ids {
		cids = append(cids, cipher.SHA256(id))
	}
	// the query that overlaps the write: a lookup by id, the balances of all addresses, their transaction history, or
	// the verification of a pending transaction (each reads several buckets inside one snapshot)
	switch t.Pick("overlap-read", 4, 2, 2, 2, 2) {
	case 4:
		_, _ = n.v.AddressCount()
	case 0:
		_, _ = n.v.GetUnspentOutputs(cids)
	case 1:
		// the answer of this one is judged: whatever the node does meanwhile, the balances it returns are those of ONE
		// state - the one before or the one after - never a mixture
		addrs := s.w.allAddrs()
		bps, err := n.v.GetBalanceOfAddresses(cAddrs(addrs))
		dbutil.VerifInView = nil
		if fired && err == nil && !c.Failed() && !s.desync && len(bps) == len(addrs) {
			match := func(m *model.Ledger) (bool, bool) {
				conf, pred, ok := expectedCoins(m, addrs)
				if !ok {
					return false, false
				}
				for i := range addrs {
					if bigU(bps[i].Confirmed.Coins).Cmp(conf[i]) != 0 || bigU(bps[i].Predicted.Coins).Cmp(pred[i]) != 0 {
						return false, true
					}
				}
				return true, true
			}
			mb, okb := match(before)
			ma, oka := match(n.m)
			if okb && oka {
				if !mb && !ma {
					c.Violate("balance", "torn-across-a-write", "n%d: a balance query that overlapped a write returned coins that are neither those of the state before nor those of the state after", n.id)
					return
				}
				c.Count("probe.overlapped_balance_query_judged")
			}
		}
	case 2:
		_, _, _ = n.v.GetTransactions([]visor.TxFilter{visor.NewAddrsFilter(cAddrs(s.w.allAddrs()))}, visor.AscOrder, nil)
	case 3:
		if hs := n.m.PoolHashes(); len(hs) > 0 {
			tx := n.m.Pool[hs[t.Int("overlap-pool-txn", len(hs))]].Txn
			ct := cTxn(&tx)
			_, _, _ = n.v.VerifyTxnVerbose(&ct, transaction.TxnSigned)
		} else {
			_, _ = n.v.GetUnspentOutputs(cids)
		}
	}
	if !fired {
		// the chosen query opened no read transaction on this node's database
		_, _ = n.v.GetUnspentOutputs(cids)
	}
	for _, id := range ids {
		_, _ = n.v.GetUnspentOutputs([]cipher.SHA256{cipher.SHA256(id)})
	}
	if !fired || c.Failed() || s.desync {
		return
	}
	c.Count("fault.read_overlaps_write")
	s.checkByHash(n, ids, "after a query that overlapped a write")
}

// opTieBurst floods the publisher's pool with transactions that tie exactly
// in fee per kilobyte, so that the hash tie-break decides the block order.
func (s *ledgerSim) opTieBurst() {
	pub := s.w.nodes[0]
	txs := s.w.tieBurst(pub.m, 6+s.c.T.Int("tie-count", 40))
	for _, tx := range txs {
		if s.c.Failed() || s.desync {
			return
		}
		s.submitTxn(pub, tx, false, kInject, "tie-burst")
	}
	s.c.Count("probe.tie_burst")
	s.c.CountN("probe.tie_burst_txns", int64(len(txs)))
	if len(txs) >= 13 {
		s.c.Count("probe.tie_burst_13_or_more")
	}
}

func (s *ledgerSim) opClock() {
	t := s.c.T
	d := []time.Duration{time.Second, 10 * time.Second, time.Hour, 24 * time.Hour, 365 * 24 * time.Hour, 50 * 365 * 24 * time.Hour}[t.Pick("clock-jump", 4, 4, 3, 2, 1, 1)]
	s.advance(d)
	s.c.Kind(kClock, true)
	s.c.Count("fault.clock_jump")
	s.c.Logf("clock +%v", d)
}

// ---- transaction injection ---------------------------------------------

func (s *ledgerSim) submitTxn(n *node, tx model.Txn, user bool, kind byte, label string) {
	c := s.c
	ct := cTxn(&tx)
	before := ""
	if s.prop == "C06" {
		before = n.dbFingerprint(nil)
	}
	var known bool
	var softErr *transaction.ErrTxnViolatesSoftConstraint
	var err error
	var exp model.TxnCheck
	var expKnown bool
	if user {
		known, _, _, err = n.v.InjectUserTransaction(ct)
		exp, expKnown = n.m.InjectUser(&tx)
	} else {
		known, softErr, err = n.v.InjectForeignTransaction(ct)
		exp, expKnown = n.m.InjectForeign(&tx, n.m.Cfg.Unconfirmed)
	}
	got := model.OK
	switch err.(type) {
	case nil:
		if softErr != nil {
			got = model.Soft
		}
	case transaction.ErrTxnViolatesHardConstraint:
		got = model.Hard
	case transaction.ErrTxnViolatesSoftConstraint:
		got = model.Soft
	case transaction.ErrTxnViolatesUserConstraint:
		got = model.User
	default:
		sim.Harnessf("inject returned an unclassified error: %v", err)
	}
	c.Kind(kind, got == model.OK)
	c.Count("txn." + got.String())
	c.Logf("inject n%d %s user=%v txn=%s -> %s (model %s:%s) known=%v", n.id, label, user, short(tx.Hash()), got, exp.Class, exp.Reason, known)
	s.known = append(s.known, tx)
	if exp.Class == model.Undecided {
		c.Undecided++
		// model did not touch its pool; adopt the node's behaviour
		if err == nil {
			n.m.Pool[tx.Hash()] = &model.PoolEntry{Txn: tx, Valid: got == model.OK}
		}
		return
	}
	admitted := err == nil
	expAdmitted := exp.Class == model.OK || (!user && exp.Class == model.Soft)
	switch s.prop {
	case "C06":
		if admitted != expAdmitted {
			c.Violate("pool-admission", fmt.Sprintf("admit=%v model=%s:%s user=%v", admitted, exp.Class, exp.Reason, user),
				"node %d admitted=%v (class %s) but the rules say %s (%s) for txn %s [%s]", n.id, admitted, got, exp.Class, exp.Reason, short(tx.Hash()), label)
			return
		}
		if got != exp.Class {
			c.Violate("pool-class", fmt.Sprintf("got=%s model=%s:%s user=%v", got, exp.Class, exp.Reason, user),
				"node %d classified txn %s as %s, rules say %s (%s)", n.id, short(tx.Hash()), got, exp.Class, exp.Reason)
			return
		}
		if admitted && known != expKnown {
			c.Violate("pool-known", fmt.Sprintf("known=%v", known), "node %d reported known=%v, model %v", n.id, known, expKnown)
			return
		}
		if !admitted && n.dbFingerprint(nil) != before {
			c.Violate("pool-reject-mutated-db", "reject-changed-db", "node %d rejected txn %s but its database changed", n.id, short(tx.Hash()))
			return
		}
	case "C03":
		// a node never admits a new unconfirmed transaction whose output hours overflow
		sum := new(big.Int)
		for _, o := range tx.Out {
			sum.Add(sum, bigU(o.Hours))
		}
		if admitted && sum.BitLen() > 64 {
			c.Violate("pool-hours-overflow", "admitted-overflowing-output-hours", "node %d admitted txn %s whose output hours sum to %s", n.id, short(tx.Hash()), sum)
			return
		}
		if admitted && exp.Class == model.Hard && hourReasons["txn: "+exp.Reason] {
			c.Violate("pool-hours", "admitted:"+exp.Reason, "node %d admitted txn %s: %s", n.id, short(tx.Hash()), exp.Reason)
			return
		}
	case "C01":
		if admitted && exp.Class == model.Hard && coinReasons["txn: "+exp.Reason] {
			c.Violate("pool-coins", "admitted:"+exp.Reason, "node %d admitted txn %s: %s", n.id, short(tx.Hash()), exp.Reason)
			return
		}
	}
	if admitted != expAdmitted {
		// out of this property's scope: the shadow model no longer mirrors the node
		s.desync = true
		c.Count("desync.txn")
		c.Notef("desync txn: node admitted=%v class=%s err=%v; model %s:%s user=%v label=%s", admitted, got, err, exp.Class, exp.Reason, user, label)
	}
}

func (s *ledgerSim) opInject(mutated bool) {
	t := s.c.T
	n := s.pickNode()
	fat := s.prop == "C05" && t.Chance("fat", 1, 6)
	if s.prop != "C05" && t.Chance("oversize", 1, 15) {
		// a transaction above the size limit: a soft violation by itself, possibly combined with a hard one below
		fat, s.w.oversize = true, true
	}
	tx, ok := s.w.mkSpend(n.m, fat)
	s.w.oversize = false
	if !ok {
		s.c.Kind(kInject, false)
		return
	}
	label := "valid-ish"
	if fat {
		label = "fat"
		s.c.Count("probe.fat_txn_built")
	}
	kind := byte(kInject)
	if mutated {
		k := 1 + t.Int("mutation", mutCount-1)
		tx = s.w.mutate(n.m, tx, k)
		label = "mut:" + mutNames[k]
		kind = kInjectMut
		s.c.Count("mut." + mutNames[k])
	}
	s.submitTxn(n, tx, t.Chance("user-inject", 1, 3), kind, label)
}

func (s *ledgerSim) opReinject() {
	if len(s.known) == 0 {
		return
	}
	n := s.pickNode()
	tx := s.known[s.c.T.Int("known-txn", len(s.known))]
	s.c.Count("fault.duplicate_txn")
	s.submitTxn(n, tx, s.c.T.Chance("user-inject", 1, 3), kReinject, "re-inject")
}

// gossip: hand a transaction pooled on one node to another node.
func (s *ledgerSim) opGossip() {
	if len(s.w.nodes) < 2 {
		return
	}
	src := s.pickNode()
	hs := src.m.PoolHashes()
	if len(hs) == 0 {
		return
	}
	tx := src.m.Pool[hs[s.c.T.Int("gossip-txn", len(hs))]].Txn
	dst := s.pickNode()
	s.submitTxn(dst, tx, false, kGossip, "gossip")
}

// ---- pool maintenance ---------------------------------------------------

func (s *ledgerSim) opRefresh() {
	n := s.pickNode()
	got, err := n.v.RefreshUnconfirmed()
	if err != nil {
		sim.Harnessf("RefreshUnconfirmed: %v", err)
	}
	exp, und := n.m.Refresh(n.m.Cfg.Unconfirmed)
	s.c.Kind(kRefresh, len(got) > 0)
	s.c.Logf("refresh n%d -> %d now valid (model %d)", n.id, len(got), len(exp))
	if und {
		s.c.Undecided++
		s.desync = true
		return
	}
	if s.prop == "C06" && !sameHashes(got, exp) {
		s.c.Violate("refresh-nowvalid", fmt.Sprintf("got=%d exp=%d", len(got), len(exp)), "node %d refresh returned %d newly valid txns, flag transitions say %d", n.id, len(got), len(exp))
	}
}

func (s *ledgerSim) opRemoveInvalid() {
	n := s.pickNode()
	got, err := n.v.RemoveInvalidUnconfirmed()
	if err != nil {
		sim.Harnessf("RemoveInvalidUnconfirmed: %v", err)
	}
	exp, und := n.m.RemoveInvalid()
	s.c.Kind(kRemoveInvalid, len(got) > 0)
	s.c.Logf("remove-invalid n%d -> %d removed (model %d)", n.id, len(got), len(exp))
	if len(got) > 0 {
		s.c.Count("probe.remove_invalid_removed")
	}
	if und {
		s.c.Undecided++
		s.desync = true
		return
	}
	if s.prop == "C06" && !sameHashes(got, exp) {
		s.c.Violate("remove-invalid", fmt.Sprintf("got=%d exp=%d", len(got), len(exp)), "node %d removed %d txns, hard rules say %d", n.id, len(got), len(exp))
	}
}

func sameHashes(got []cipher.SHA256, exp []model.Hash) bool {
	if len(got) != len(exp) {
		return false
	}
	g := make([]model.Hash, len(got))
	for i := range got {
		g[i] = model.Hash(got[i])
	}
	sort.Slice(g, func(i, j int) bool { return lessHash(g[i], g[j]) })
	e := append([]model.Hash{}, exp...)
	sort.Slice(e, func(i, j int) bool { return lessHash(e[i], e[j]) })
	for i := range g {
		if g[i] != e[i] {
			return false
		}
	}
	return true
}

// ---- blocks -------------------------------------------------------------

// preState is what the coin/hour oracles need from the node before a block.
type preState struct {
	ux       map[model.Hash]model.Ux
	headTime uint64
	fp       string
	headSeq  uint64
}

func (s *ledgerSim) snapshot(n *node, withFP bool) preState {
	uxs, err := n.v.GetAllUnspentOutputs()
	if err != nil {
		sim.Harnessf("GetAllUnspentOutputs: %v", err)
	}
	p := preState{ux: map[model.Hash]model.Ux{}}
	for i := range uxs {
		u := mUx(&uxs[i])
		p.ux[u.ID()] = u
	}
	ht, err := n.v.GetHeadBlockTime()
	if err != nil {
		sim.Harnessf("GetHeadBlockTime: %v", err)
	}
	p.headTime = ht
	p.headSeq, _, _ = n.v.HeadBkSeq()
	if withFP {
		p.fp = n.dbFingerprint(nil)
	}
	return p
}

// submitBlock hands b to node n, compares with the model and runs the
// per-property oracles.  Returns whether the node appended it.
func (s *ledgerSim) submitBlock(n *node, b model.Block, label string, kind byte) bool {
	c := s.c
	if n.publisher {
		return s.submitBlockArbitrating(n, b, label, kind)
	}
	pre := s.snapshot(n, s.prop == "C04")
	verdict := n.m.CheckBlock(&b)
	cb := cBlock(&b)
	if s.beforeExec != nil {
		s.beforeExec()
		s.beforeExec = nil
	}
	err := n.v.ExecuteSignedBlock(cb)
	dbutil.VerifInView = nil
	accepted := err == nil
	c.Kind(kind, accepted)
	c.Logf("block n%d %s seq=%d time=%d ntx=%d -> accepted=%v (model %s:%s)", n.id, label, b.Head.BkSeq, b.Head.Time, len(b.Txns), accepted, verdict.V, verdict.Reason)
	if !accepted && !strings.HasPrefix(label, "re-offer") {
		if s.refused == nil {
			s.refused = map[int][]model.Block{}
		}
		if l := s.refused[n.id]; len(l) < 12 {
			s.refused[n.id] = append(l, b)
		}
		if b.Head.BkSeq > n.m.Head().Head.BkSeq+1 && !s.early[b.Head.Hash()] {
			if s.early == nil {
				s.early = map[model.Hash]bool{}
			}
			s.early[b.Head.Hash()] = true
			s.c.Count("probe.block_refused_as_too_early")
			// kept beyond the cap: these are the ones that matter later
			s.refused[n.id] = append(s.refused[n.id], b)
		}
	}
	if accepted {
		c.Count("block.accepted")
	} else {
		c.Count("block.rejected")
		c.Count("reject." + strings.TrimPrefix(verdict.Reason, "txn: "))
	}
	if accepted {
		s.acceptedBlockOracles(n, &b, pre)
		if c.Failed() {
			return true
		}
	} else if s.prop == "C04" {
		if fp := n.dbFingerprint(nil); fp != pre.fp {
			c.Violate("reject-changed-state", "rejected-block-changed-db:"+verdict.Reason, "node %d rejected block (%s, model reason %q) but its database content changed", n.id, label, verdict.Reason)
			return false
		}
	}
	switch {
	case verdict.V == model.Either:
		c.Undecided++
		if accepted {
			n.m.Apply(b)
		}
	case accepted && verdict.V == model.Reject:
		if s.owns(verdict.Reason) {
			c.Violate("accepted-invalid-block", verdict.Reason, "node %d appended a block the rules refuse (%s) [%s]", n.id, verdict.Reason, label)
		} else {
			s.desync = true
			c.Count("desync.block")
			c.Notef("desync block: node accepted, model rejects: %s [%s]", verdict.Reason, label)
		}
	case !accepted && verdict.V == model.Accept:
		// "only if" properties say nothing here; C05 covers publisher-made blocks separately
		s.desync = true
		c.Count("desync.block_rejected_valid")
		c.Notef("desync block: node rejected (%v), model accepts [%s]", err, label)
		c.Logf("node error: %v", err)
	case accepted:
		n.m.Apply(b)
	}
	return accepted
}

// acceptedBlockOracles: statements about every accepted block, evaluated on
// the node's own pre-state (independent of the model's verdict).
func (s *ledgerSim) acceptedBlockOracles(n *node, b *model.Block, pre preState) {
	c := s.c
	switch s.prop {
	case "C01":
		for i := range b.Txns {
			t := &b.Txns[i]
			cin, cout := new(big.Int), new(big.Int)
			for _, in := range t.In {
				u, ok := pre.ux[in]
				if !ok {
					c.Violate("block-spends-unknown", "accepted-block-spends-non-unspent", "node %d accepted a block whose txn %s spends %s which was not unspent", n.id, short(t.Hash()), short(in))
					return
				}
				cin.Add(cin, bigU(u.Coins))
			}
			for _, o := range t.Out {
				cout.Add(cout, bigU(o.Coins))
			}
			if cin.Cmp(cout) != 0 {
				c.Violate("coins-not-conserved", fmt.Sprintf("in%sout", cmpSign(cin, cout)), "node %d accepted txn %s with input coins %s and output coins %s", n.id, short(t.Hash()), cin, cout)
				return
			}
		}
	case "C03":
		for i := range b.Txns {
			t := &b.Txns[i]
			hin, hout := new(big.Int), new(big.Int)
			for _, in := range t.In {
				u, ok := pre.ux[in]
				if !ok {
					return
				}
				h, ov, inter := model.AccruedHours(u, pre.headTime)
				if inter {
					c.Undecided++
					return
				}
				if ov {
					c.Count("probe.legacy_zero_hours_input")
					continue // documented exception: counts as zero
				}
				hin.Add(hin, h)
			}
			for _, o := range t.Out {
				hout.Add(hout, bigU(o.Hours))
			}
			if hout.Cmp(hin) > 0 {
				sig := "out>in"
				if hout.BitLen() > 64 {
					sig = "out>in:output-hour-sum-wraps-64-bit"
				}
				if c.KnownHit("hours-created", sig, "node %d accepted txn %s whose outputs hold %s hours while its inputs accrued %s at the previous block time %d", n.id, short(t.Hash()), hout, hin, pre.headTime) {
					// a recorded finding (the model accepts such blocks too, so the run can go on and look at what
					// happens to the outputs it created)
					continue
				}
				c.Violate("hours-created", sig, "node %d accepted txn %s whose outputs hold %s hours while its inputs accrued %s at the previous block time %d", n.id, short(t.Hash()), hout, hin, pre.headTime)
				return
			}
		}
	case "C04":
		// the stored block is exactly what was submitted, and its stored signature verifies over the stored header
		sb, err := n.v.GetSignedBlockBySeq(b.Head.BkSeq)
		if err != nil || sb == nil {
			c.Violate("stored-block-missing", "stored-block-missing", "node %d accepted block seq %d but cannot return it: %v", n.id, b.Head.BkSeq, err)
			return
		}
		st := mBlock(sb)
		if st.Head != b.Head {
			c.Violate("stored-header-differs", diffHeader(&st.Head, &b.Head), "node %d stored a header that differs from the signed one submitted (%s)", n.id, diffHeader(&st.Head, &b.Head))
			return
		}
		if st.Sig != b.Sig || len(st.Txns) != len(b.Txns) {
			c.Violate("stored-block-differs", "sig-or-txn-count", "node %d stored block differs from submitted", n.id)
			return
		}
		for i := range st.Txns {
			if st.Txns[i].Hash() != b.Txns[i].Hash() {
				c.Violate("stored-block-differs", "txn", "node %d stored block txn %d differs from submitted", n.id, i)
				return
			}
		}
		hh := st.Head.Hash()
		pub, ok := model.Recover([32]byte(hh), [65]byte(st.Sig))
		if !ok || pub != n.m.Cfg.PubKey {
			c.Violate("stored-sig-invalid", "stored-signature-does-not-verify", "node %d: stored signature of block %d does not verify over the stored header", n.id, b.Head.BkSeq)
			return
		}
	}
}

func cmpSign(a, b *big.Int) string {
	switch a.Cmp(b) {
	case -1:
		return "<"
	case 1:
		return ">"
	}
	return "="
}

func diffHeader(a, b *model.Header) string {
	var d []string
	if a.Version != b.Version {
		d = append(d, "version")
	}
	if a.Time != b.Time {
		d = append(d, "time")
	}
	if a.BkSeq != b.BkSeq {
		d = append(d, "seq")
	}
	if a.Fee != b.Fee {
		d = append(d, "fee")
	}
	if a.Prev != b.Prev {
		d = append(d, "prev")
	}
	if a.Body != b.Body {
		d = append(d, "body")
	}
	if a.UxHash != b.UxHash {
		d = append(d, "uxhash")
	}
	return strings.Join(d, ",")
}

// opCreateBlock: the real publisher makes a block from its pool.
func (s *ledgerSim) opCreateBlock() {
	c := s.c
	t := c.T
	pub := s.w.nodes[0]
	if t.Chance("tick-before-create", 9, 10) {
		s.advance(time.Duration(1+t.Int("create-gap", 20)) * time.Second)
	}
	now := s.now()
	cands, und := pub.m.Candidates()
	pre := s.snapshot(pub, false)
	sb, err := pub.v.CreateAndExecuteBlock()
	created := err == nil
	c.Kind(kCreate, created)
	c.Logf("create-block at %d -> created=%v ntx=%d cands=%d err=%v", now, created, len(sb.Body.Transactions), len(cands), err)
	if und {
		c.Undecided++
		s.desync = true
		return
	}
	timeOK := now > pub.m.Head().Head.Time
	if !created {
		if s.prop == "C05" && len(cands) > 0 && timeOK {
			c.Violate("publisher-no-block", "no-block-despite-candidates", "publisher failed to create a block although %d pooled transactions satisfy all rules: %v", len(cands), err)
		}
		return
	}
	c.Count("block.created")
	b := mBlock(&sb)
	if s.prop == "C05" {
		s.checkCreated(pub, &b, cands, now)
		if c.Failed() {
			return
		}
	}
	verdict := pub.m.CheckBlock(&b)
	s.acceptedBlockOracles(pub, &b, pre)
	if c.Failed() {
		return
	}
	if verdict.V == model.Reject {
		if s.owns(verdict.Reason) || s.prop == "C05" {
			c.Violate("publisher-made-invalid-block", verdict.Reason, "publisher created and executed a block the rules refuse: %s", verdict.Reason)
		} else {
			s.desync = true
		}
		return
	}
	pub.m.Apply(b)
	s.pubBlocks = append(s.pubBlocks, b)
	if s.prop == "C05" {
		// every follower that holds the same chain must accept it
		for _, f := range s.w.nodes[1:] {
			if uint64(len(f.m.Chain)) != b.Head.BkSeq || f.m.Head().Head.Hash() != b.Head.Prev {
				continue
			}
			err := f.v.ExecuteSignedBlock(cBlock(&b))
			if err != nil {
				c.Violate("follower-rejects-publisher-block", "follower-reject", "follower %d with the same chain rejected the publisher's block %d: %v", f.id, b.Head.BkSeq, err)
				return
			}
			c.Count("probe.follower_accepted_publisher_block")
			f.m.Apply(b)
		}
	}
}

// checkCreated: C05 oracle on a block made by the publisher (see DESIGN C05).
func (s *ledgerSim) checkCreated(pub *node, b *model.Block, cands []model.Candidate, now uint64) {
	c := s.c
	pos := map[model.Hash]int{}
	for i, cd := range cands {
		pos[cd.H] = i
	}
	var total uint64
	inBlock := map[model.Hash]bool{}
	prev := -1
	for i := range b.Txns {
		h := b.Txns[i].Hash()
		p, ok := pos[h]
		if !ok {
			chk := pub.m.CheckSingle(&b.Txns[i], pub.m.Cfg.CreateBlock)
			c.Violate("block-has-ineligible-txn", chk.Class.String()+":"+chk.Reason, "publisher block contains txn %s that is not an eligible pooled transaction (%s: %s)", short(h), chk.Class, chk.Reason)
			return
		}
		if inBlock[h] {
			c.Violate("block-duplicate-txn", "dup", "publisher block lists txn %s twice", short(h))
			return
		}
		inBlock[h] = true
		total += cands[p].Size
		if p < prev {
			a, bb := cands[prev], cands[p]
			c.Violate("block-order", fmt.Sprintf("prio %d before %d", a.Prio, bb.Prio), "publisher block lists txn %s (fee/kB %d) before %s (fee/kB %d)", short(a.H), a.Prio, short(bb.H), bb.Prio)
			return
		}
		prev = p
	}
	if total > uint64(pub.m.Cfg.MaxBlockSize) {
		c.Violate("block-too-big", "size", "publisher block has %d bytes of transactions, limit %d", total, pub.m.Cfg.MaxBlockSize)
		return
	}
	if len(b.Txns) >= 2 {
		c.Count("probe.multi_txn_block")
	}
	// conflicts
	spentBy := map[model.Hash]model.Hash{}
	for i := range b.Txns {
		for _, in := range b.Txns[i].In {
			if o, dup := spentBy[in]; dup {
				c.Violate("block-conflict", "two-spenders", "publisher block includes two spenders of %s: %s and %s", short(in), short(o), short(b.Txns[i].Hash()))
				return
			}
			spentBy[in] = b.Txns[i].Hash()
		}
	}
	// every excluded candidate needs a justification
	lastIncluded := -1
	for i, cd := range cands {
		if inBlock[cd.H] {
			lastIncluded = i
		}
	}
	var prefix uint64
	for i, cd := range cands {
		prefix += cd.Size
		if inBlock[cd.H] {
			continue
		}
		// conflict with an earlier candidate?
		conflict, simple := false, true
		for j := 0; j < i; j++ {
			if sharesInput(cands[j].T, cd.T) {
				conflict = true
			}
		}
		_ = simple
		if conflict {
			c.Count("probe.arbitration_dropped_conflict")
			continue
		}
		if i < lastIncluded {
			c.Violate("block-skipped-candidate", "skipped", "publisher block skips eligible txn %s (position %d, fee/kB %d) but includes later ones", short(cd.H), i, cd.Prio)
			return
		}
		if prefix <= uint64(pub.m.Cfg.MaxBlockSize) && i < coin.MaxBlockTransactions {
			c.Violate("block-omits-fitting-candidate", "omitted", "publisher block omits eligible txn %s although everything up to it fits (%d <= %d bytes)", short(cd.H), prefix, pub.m.Cfg.MaxBlockSize)
			return
		}
		c.Count("probe.size_limit_cut")
	}
	// first member of each conflict set that lies inside the size cut must be the one included
	if b.Head.Time != now {
		c.Violate("block-time", "time", "publisher block time %d differs from the clock %d", b.Head.Time, now)
	}
}

func sharesInput(a, b *model.Txn) bool {
	for _, x := range a.In {
		for _, y := range b.In {
			if x == y {
				return true
			}
		}
	}
	return false
}

// opDeliver: hand one of the publisher's real blocks to a follower, in order,
// out of order or repeatedly.
// opReoffer: a block the node has refused before is offered again - unchanged (it may fit now), or with the
// signature replaced (another key, another block's signature, zeroes, one bit flipped).  Whatever the node
// remembers about the first offer, the verdict must be the one the rules give now.
func (s *ledgerSim) opReoffer() bool {
	t := s.c.T
	var ids []int
	for id, l := range s.refused {
		if len(l) > 0 {
			ids = append(ids, id)
		}
	}
	if len(ids) == 0 {
		return false
	}
	sort.Ints(ids)
	id := ids[t.Int("reoffer-node", len(ids))]
	var n *node
	for _, x := range s.w.nodes {
		if x.id == id {
			n = x
		}
	}
	if n == nil || n.publisher {
		return false
	}
	l := s.refused[id]
	// prefer blocks that would extend the node's chain now (refused earlier only because they came too early)
	var fits []model.Block
	hd := n.m.Head().Head
	for _, x := range l {
		if x.Head.BkSeq == hd.BkSeq+1 && x.Head.Prev == hd.Hash() && s.early[x.Head.Hash()] {
			fits = append(fits, x)
		}
	}
	if len(fits) > 0 && t.Chance("reoffer-fitting", 3, 4) {
		l = fits
		s.c.Count("probe.reoffered_block_fits_now")
	}
	b := l[t.Int("reoffer-block", len(l))]
	b.Txns = append([]model.Txn{}, b.Txns...)
	label := "re-offer"
	switch t.Pick("reoffer-sig", 3, 2, 2, 1, 1) {
	case 1:
		signBlock(&b, &s.w.forger)
		label = "re-offer:sig-other-key"
	case 2:
		if len(s.pubBlocks) > 0 {
			b.Sig = s.pubBlocks[t.Int("reoffer-other-sig", len(s.pubBlocks))].Sig
		}
		label = "re-offer:sig-of-another-block"
	case 3:
		b.Sig = model.Sig{}
		label = "re-offer:sig-null"
	case 4:
		b.Sig[t.Int("reoffer-sig-byte", 64)] ^= 1 << t.Draw("reoffer-sig-bit", 8)
		label = "re-offer:sig-flip"
	}
	s.c.Count("fault.refused_block_offered_again")
	s.submitBlock(n, b, label, kDeliver)
	return true
}

func (s *ledgerSim) opDeliver() {
	if len(s.w.nodes) < 2 || len(s.pubBlocks) == 0 {
		return
	}
	t := s.c.T
	if t.Chance("reoffer", 1, 5) && s.opReoffer() {
		return
	}
	f := s.w.nodes[1+t.Int("follower", len(s.w.nodes)-1)]
	next := len(f.m.Chain) // seq wanted
	var seq int
	label := "next"
	switch t.Pick("deliver-which", 8, 1, 1, 2) {
	case 0:
		seq = next
	case 1:
		seq = 1 + t.Int("deliver-seq", len(s.pubBlocks))
		label = "random"
		s.c.Count("fault.reorder")
	case 2:
		seq = next - 1
		label = "duplicate"
		s.c.Count("fault.duplicate_block")
	case 3:
		seq = next + 1
		label = "skip-ahead"
		s.c.Count("fault.reorder")
	}
	if seq < 1 || seq > len(s.pubBlocks) {
		return
	}
	s.submitBlock(f, s.pubBlocks[seq-1], "publisher-block:"+label, kDeliver)
}

// opForge: the key-holding forger crafts a block for a node.
// opForgePair: two valid consecutive blocks arrive in the wrong order - the second first (too early: refused),
// then the first (accepted); then the second is offered again, unchanged or with its signature replaced.  What the
// node concluded about the second block when it first saw it must not decide the second offer.
func (s *ledgerSim) opForgePair() bool {
	c := s.c
	t := c.T
	if len(s.w.nodes) < 2 {
		return false
	}
	n := s.w.nodes[1+t.Int("follower", len(s.w.nodes)-1)]
	m := n.m
	tx1, ok := s.w.mkSpend(m, false)
	if !ok {
		return false
	}
	b1 := mkBlock(m, []model.Txn{tx1}, m.Head().Head.Time+1+t.Draw("pair-dt", 100))
	signBlock(&b1, &s.w.pubKey)
	if v := m.CheckBlock(&b1); v.V != model.Accept {
		return false
	}
	work := m.Clone()
	work.Apply(b1)
	tx2, ok := s.w.mkSpend(work, false)
	if !ok {
		return false
	}
	b2 := mkBlock(work, []model.Txn{tx2}, b1.Head.Time+1+t.Draw("pair-dt", 100))
	signBlock(&b2, &s.w.pubKey)
	if v := work.CheckBlock(&b2); v.V != model.Accept {
		return false
	}
	s.known = append(s.known, tx1, tx2)
	c.Count("fault.blocks_arrive_in_reverse_order")
	s.submitBlock(n, b2, "pair:second-first", kForge)
	if c.Failed() || s.desync {
		return true
	}
	if !s.submitBlock(n, b1, "pair:first", kForge) || c.Failed() || s.desync {
		return true
	}
	again := b2
	again.Txns = append([]model.Txn{}, b2.Txns...)
	label := "re-offer:pair-second"
	switch t.Pick("pair-sig", 2, 2, 1, 1, 1) {
	case 1:
		signBlock(&again, &s.w.forger)
		label += ":sig-other-key"
	case 2:
		again.Sig = b1.Sig
		label += ":sig-of-another-block"
	case 3:
		again.Sig = model.Sig{}
		label += ":sig-null"
	case 4:
		again.Sig[t.Int("pair-sig-byte", 64)] ^= 1 << t.Draw("pair-sig-bit", 8)
		label += ":sig-flip"
	}
	s.submitBlock(n, again, label, kForge)
	return true
}

func (s *ledgerSim) opForge() {
	c := s.c
	t := c.T
	if t.Chance("forge-pair", 1, 10) && s.opForgePair() {
		return
	}
	n := s.pickNode()
	if n.publisher && len(s.w.nodes) > 1 && t.Chance("forge-prefers-follower", 3, 4) {
		n = s.w.nodes[1+t.Int("follower", len(s.w.nodes)-1)]
	}
	// (a publisher target arbitrates: see submitBlockArbitrating)
	m := n.m
	// choose transactions
	var txns []model.Txn
	ntx := 1 + t.Pick("forge-ntx", 6, 3, 1)
	for i := 0; i < ntx; i++ {
		src := t.Pick("forge-txn-src", 5, 3, 2, 1, 2)
		if i == 0 && s.w.hasOverflowed(m) && t.Chance("forge-prefers-overflowed", 1, 2) {
			src = 4 // such outputs are rare: when one exists, half of the forged blocks use it
		}
		switch src {
		case 4:
			// an input whose accrued hours have passed 2^64 (it counts as zero inside blocks) together with an
			// ordinary one, in either order, with output hours at and around what the ordinary input alone gives
			if tx, ok := s.w.mkOverflowCombo(m); ok {
				if t.Chance("combo-drops-overflowed-coins", 1, 3) && len(tx.In) == 2 {
					// ... and pays out only what the ordinary input holds: the coins of the other input would vanish
					var keep uint64
					for _, in := range tx.In {
						if _, over, _ := model.AccruedHours(m.Unspent[in], m.Head().Head.Time); !over {
							keep = m.Unspent[in].Coins
						}
					}
					if keep > 0 {
						tx.Out = []model.Out{{Addr: tx.Out[0].Addr, Coins: keep, Hours: 0}}
						s.w.sign(m, &tx)
						c.Count("probe.overflow_combo_dropping_coins")
					}
				}
				txns = append(txns, tx)
				s.known = append(s.known, tx)
				c.Count("probe.overflow_input_combined_with_ordinary_input")
			}
		case 0:
			work := m
			if len(txns) > 0 && t.Chance("forge-chain-spend", 1, 3) {
				// try to spend an output created earlier in this very block
				work = m.Clone()
				hb := mkBlock(m, txns, m.Head().Head.Time+1)
				work.Apply(hb)
			} else if len(txns) > 0 {
				// avoid inputs already used in this block
				work = m.Clone()
				for _, x := range txns {
					work.Pool[x.Hash()] = &model.PoolEntry{Txn: x}
				}
			}
			if tx, ok := s.w.mkSpend(work, false); ok {
				txns = append(txns, tx)
				s.known = append(s.known, tx)
			}
		case 1:
			hs := m.PoolHashes()
			if len(hs) > 0 {
				txns = append(txns, m.Pool[hs[t.Int("forge-pool-txn", len(hs))]].Txn)
			}
		case 2:
			if tx, ok := s.w.mkSpend(m, false); ok {
				k := 1 + t.Int("mutation", mutCount-1)
				tx = s.w.mutate(m, tx, k)
				c.Count("mut." + mutNames[k])
				txns = append(txns, tx)
				s.known = append(s.known, tx)
			}
		case 3:
			if len(s.known) > 0 {
				txns = append(txns, s.known[t.Int("known-txn", len(s.known))])
			}
		}
	}
	if len(txns) == 0 {
		if tx, ok := s.w.mkSpend(m, false); ok {
			txns = append(txns, tx)
		} else {
			return
		}
	}
	head := m.Head().Head
	// block time: near the head, the simulated clock, or far away
	var tm uint64
	switch t.Pick("forge-time", 5, 3, 1, 1, 1) {
	case 0:
		tm = head.Time + 1 + t.Draw("forge-dt", 100)
	case 1:
		tm = s.now()
		if tm <= head.Time {
			tm = head.Time + 1
		}
	case 2:
		tm = head.Time + 86400*365*(1+t.Draw("forge-years", 1000))
	case 3:
		tm = ^uint64(0) - t.Draw("forge-near-max", 1000)
	case 4:
		tm = head.Time + 3600*(1+t.Draw("forge-hours", 100000))
	}
	if tm <= head.Time { // wrapped
		tm = head.Time + 1
	}
	b := mkBlock(m, txns, tm)
	bm := 0
	if t.Chance("block-mutation", 1, 2) {
		bm = 1 + t.Int("bm", bmCount-1)
	}
	signer := &s.w.pubKey
	resign := true
	switch bm {
	case bmVersion:
		b.Head.Version += 1 + uint32(t.Draw("bm-version", 5))
	case bmTime:
		if head.Time > 0 {
			b.Head.Time = head.Time - t.Draw("bm-time-back", min64(head.Time, 1000))
			if b.Head.Time == head.Time {
				b.Head.Time--
			}
		}
	case bmTimeEqual:
		b.Head.Time = head.Time
	case bmTimeHuge:
		b.Head.Time = ^uint64(0)
	case bmTimeHalf:
		// a jump of just under 2^63 seconds (a later time, so a valid header): two of them take the chain's clock to the
		// top of the 64-bit range, where differences of times no longer fit a signed integer
		d := uint64(1)<<63 - 1 - t.Draw("bm-time-half", 1000)
		if head.Time > ^uint64(0)-d {
			b.Head.Time = ^uint64(0) - t.Draw("bm-time-top", 20)
			if b.Head.Time <= head.Time {
				b.Head.Time = head.Time + 1
			}
		} else {
			b.Head.Time = head.Time + d
		}
	case bmSeq:
		b.Head.BkSeq = []uint64{head.BkSeq, head.BkSeq + 2, 0, ^uint64(0)}[t.Pick("bm-seq", 1, 1, 1, 1)]
	case bmFee:
		b.Head.Fee += 1 + t.Draw("bm-fee", 1000)
	case bmPrev:
		switch t.Pick("bm-prev", 2, 1, 1) {
		case 0:
			b.Head.Prev[t.Int("bm-prev-byte", 32)] ^= 1 << t.Draw("bm-prev-bit", 8)
		case 1:
			b.Head.Prev = model.Hash{}
		case 2:
			if len(m.Chain) >= 2 {
				b.Head.Prev = m.Chain[len(m.Chain)-2].Head.Hash()
			} else {
				b.Head.Prev[0] ^= 1
			}
		}
	case bmBody:
		b.Head.Body[t.Int("bm-body-byte", 32)] ^= 1 << t.Draw("bm-body-bit", 8)
	case bmUxHash:
		b.Head.UxHash[t.Int("bm-ux-byte", 32)] ^= 1 << t.Draw("bm-ux-bit", 8)
	case bmSigOtherKey:
		signer = &s.w.forger
	case bmDropTxn:
		if len(b.Txns) > 1 {
			b.Txns = b.Txns[1:]
			if t.Bool("bm-fix-body") {
				b.Head.Body = model.BodyHash(b.Txns)
			}
		}
	case bmDupTxn:
		b.Txns = append(b.Txns, b.Txns[0])
		if t.Bool("bm-fix-body") {
			b.Head.Body = model.BodyHash(b.Txns)
		}
	case bmReorderTxns:
		if len(b.Txns) > 1 {
			b.Txns[0], b.Txns[1] = b.Txns[1], b.Txns[0]
			if t.Bool("bm-fix-body") {
				b.Head.Body = model.BodyHash(b.Txns)
			}
		}
	case bmMutateTxn:
		k := 1 + t.Int("mutation", mutCount-1)
		i := t.Int("bm-txn-i", len(b.Txns))
		b.Txns[i] = s.w.mutate(m, b.Txns[i], k)
		c.Count("mut." + mutNames[k])
		if t.Chance("bm-fix-body", 3, 4) {
			b.Head.Body = model.BodyHash(b.Txns)
		}
	case bmAppendTxn:
		if len(s.known) > 0 {
			b.Txns = append(b.Txns, s.known[t.Int("known-txn", len(s.known))])
			if t.Chance("bm-fix-body", 3, 4) {
				b.Head.Body = model.BodyHash(b.Txns)
			}
		}
	case bmSecondGenesis:
		b = m.Chain[0]
		resign = false
	case bmOldBlock:
		b = m.Chain[t.Int("bm-old", len(m.Chain))]
		resign = false
	case bmEmpty:
		b.Txns = nil
		b.Head.Body = model.BodyHash(nil)
	}
	if resign {
		signBlock(&b, signer)
	}
	switch bm {
	case bmSigFlip:
		b.Sig[t.Int("bm-sig-byte", 65)] ^= 1 << t.Draw("bm-sig-bit", 8)
	case bmSigHighS:
		b.Sig = model.Sig(model.NegateS([65]byte(b.Sig)))
	case bmSigRecid:
		b.Sig[64] = []byte{b.Sig[64] ^ 1, b.Sig[64] + 4, b.Sig[64] ^ 2, 255}[t.Pick("bm-recid", 1, 1, 1, 1)]
	case bmSigNull:
		b.Sig = model.Sig{}
	}
	c.Count("bm." + bmNames[bm])
	if s.submitBlock(n, b, "forged:"+bmNames[bm], kForge) && !c.Failed() && !s.desync {
		// an accepted block that created an output just below 2^64 hours: half of the time somebody spends it at
		// once, while it is still spendable (it stops being so as soon as the head time moves on)
		for i := range b.Txns {
			for j, o := range b.Txns[i].Out {
				if o.Hours >= ^uint64(0)-2000 && o.Coins >= 1000000 && t.Chance("spend-near-max-now", 1, 2) {
					id := model.UxID(b.Txns[i].Hash(), o)
					_ = j
					if tx, ok := s.w.mkSpendOf(n.m, []model.Hash{id}, 0); ok {
						c.Count("probe.near_max_hours_output_spent_while_fresh")
						s.submitTxn(n, tx, false, kInject, "spend-near-max-hours-output")
					}
					return
				}
			}
		}
	}
}

func min64(a, b uint64) uint64 {
	if a < b {
		return a
	}
	return b
}

// ---- restart ------------------------------------------------------------

func (s *ledgerSim) opRestart() {
	n := s.pickNode()
	var before map[string]string
	rebuild := s.prop == "C07" && s.c.T.Chance("restart-forces-rebuild", 1, 2)
	if rebuild {
		// Rebuilding the indexes and history from the stored blocks must give the same data:
		// drop the two markers that make visor.New trust the derived buckets.
		var err error
		if before, err = logicalDump(n.db); err != nil {
			sim.Harnessf("dump: %v", err)
		}
		n.stop()
		db, err := openBolt(n.path)
		if err != nil {
			sim.Harnessf("reopen: %v", err)
		}
		err = db.Update("verif drop index markers", func(tx *dbutil.Tx) error {
			if b := tx.Bucket([]byte("unspent_meta")); b != nil {
				if err := b.Delete([]byte("addr_index_height")); err != nil {
					return err
				}
			}
			if b := tx.Bucket([]byte("history_meta")); b != nil {
				return b.Delete([]byte("parsed_height"))
			}
			return nil
		})
		db.Close()
		if err != nil {
			sim.Harnessf("drop markers: %v", err)
		}
		s.c.Count("fault.forced_index_history_rebuild")
	}
	n.stop()
	s.c.Count("fault.restart")
	if err := n.start(); err != nil {
		if rebuild {
			s.c.Violate("rebuild-failed", "rebuild-start-error", "node %d cannot start when its indexes and history have to be rebuilt from the stored blocks (chain length %d): %v", n.id, len(n.m.Chain), err)
			return
		}
		s.c.Violate("restart-failed", "restart", "node %d failed to restart on its own database: %v", n.id, err)
		return
	}
	// Init removes invalid transactions from the pool
	_, und := n.m.RemoveInvalid()
	if und {
		s.desync = true
	}
	s.c.Kind(kRestart, true)
	s.c.Logf("restart n%d rebuild=%v", n.id, rebuild)
	if rebuild {
		after, err := logicalDump(n.db)
		if err != nil {
			sim.Harnessf("dump: %v", err)
		}
		// Init may have dropped invalid pool entries: compare only what is derived from the chain
		for _, k := range []string{"unconfirmed_txns", "unconfirmed_unspents"} {
			delete(before, k)
			delete(after, k)
		}
		if d := diffDump(before, after); len(d) > 0 {
			s.c.Violate("rebuild-differs", "buckets:"+fmt.Sprint(d), "node %d: rebuilding indexes and history from the stored blocks (chain length %d) changed buckets %v", n.id, len(n.m.Chain), d)
		}
	}
}

// ---- invariants after every step -----------------------------------------

func (s *ledgerSim) invariants() {
	for _, n := range s.w.nodes {
		if s.c.Failed() {
			return
		}
		s.nodeInvariants(n)
	}
}

func (s *ledgerSim) nodeInvariants(n *node) {
	c := s.c
	uxs, err := n.v.GetAllUnspentOutputs()
	if err != nil {
		sim.Harnessf("GetAllUnspentOutputs: %v", err)
	}
	switch s.prop {
	case "C01":
		sum := new(big.Int)
		for i := range uxs {
			sum.Add(sum, bigU(uxs[i].Body.Coins))
		}
		if sum.Cmp(bigU(s.w.genCoins)) != 0 {
			c.Violate("supply-changed", fmt.Sprintf("supply%sgenesis", cmpSign(sum, bigU(s.w.genCoins))), "node %d: unspent set holds %s coins, genesis volume is %d", n.id, sum, s.w.genCoins)
		}
	case "C02":
		if len(uxs) != len(n.m.Unspent) {
			c.Violate("unspent-set-differs", fmt.Sprintf("size got%sexp", cmpSign(big.NewInt(int64(len(uxs))), big.NewInt(int64(len(n.m.Unspent))))),
				"node %d has %d unspent outputs, created-minus-spent has %d", n.id, len(uxs), len(n.m.Unspent))
			return
		}
		seen := map[model.Hash]bool{}
		for i := range uxs {
			u := mUx(&uxs[i])
			id := u.ID()
			if seen[id] {
				c.Violate("unspent-duplicate", "dup-id", "node %d lists unspent %s twice", n.id, short(id))
				return
			}
			seen[id] = true
			if model.Hash(uxs[i].Hash()) != id {
				c.Violate("output-id", "id-derivation", "node %d derives output id %s, (txn,address,coins,hours) hashes to %s", n.id, uxs[i].Hash().Hex()[:8], short(id))
				return
			}
			e, ok := n.m.Unspent[id]
			if !ok {
				why := "never created"
				if sp, was := n.m.Spent[id]; was {
					why = fmt.Sprintf("spent in block %d", sp.Seq)
				}
				c.Violate("unspent-set-differs", "extra:"+strings.Fields(why)[0], "node %d holds unspent %s which is %s", n.id, short(id), why)
				return
			}
			if e != u {
				c.Violate("unspent-fields", "fields", "node %d unspent %s = %+v, chain says %+v", n.id, short(id), u, e)
				return
			}
		}
	case "C06":
		utxns, err := n.v.GetAllUnconfirmedTransactions()
		if err != nil {
			sim.Harnessf("GetAllUnconfirmedTransactions: %v", err)
		}
		if len(utxns) != len(n.m.Pool) {
			c.Violate("pool-differs", fmt.Sprintf("size got%sexp", cmpSign(big.NewInt(int64(len(utxns))), big.NewInt(int64(len(n.m.Pool))))), "node %d pool has %d txns, model %d", n.id, len(utxns), len(n.m.Pool))
			return
		}
		seen := map[model.Hash]bool{}
		for i := range utxns {
			mt := mTxn(&utxns[i].Transaction)
			h := mt.Hash()
			if seen[h] {
				c.Violate("pool-duplicate", "dup", "node %d pool lists txn %s twice", n.id, short(h))
				return
			}
			seen[h] = true
			e, ok := n.m.Pool[h]
			if !ok {
				why := "unknown"
				if _, conf := n.m.TxnSeq[h]; conf {
					why = "confirmed"
				}
				c.Violate("pool-differs", "extra:"+why, "node %d pool holds txn %s that should not be there (%s)", n.id, short(h), why)
				return
			}
			if (utxns[i].IsValid == 1) != e.Valid {
				c.Violate("pool-valid-flag", fmt.Sprintf("flag=%d", utxns[i].IsValid), "node %d pool txn %s has IsValid=%d, a fresh re-check at its last check point says %v", n.id, short(h), utxns[i].IsValid, e.Valid)
				return
			}
		}
		valid, err := n.v.GetAllValidUnconfirmedTxHashes()
		if err != nil {
			sim.Harnessf("GetAllValidUnconfirmedTxHashes: %v", err)
		}
		nv := 0
		for _, e := range n.m.Pool {
			if e.Valid {
				nv++
			}
		}
		if len(valid) != nv {
			c.Violate("pool-valid-list", "count", "node %d reports %d valid pooled txns, model %d", n.id, len(valid), nv)
		}
	}
	// head agreement is part of every ledger property's shadowing; a mismatch
	// here that is out of scope only ends the run.
	seq, _, err := n.v.HeadBkSeq()
	if err != nil {
		sim.Harnessf("HeadBkSeq: %v", err)
	}
	if seq != n.m.Head().Head.BkSeq {
		if s.prop == "C04" {
			c.Violate("head-differs", "head-seq", "node %d head seq %d, model %d", n.id, seq, n.m.Head().Head.BkSeq)
		} else {
			s.desync = true
		}
	}
}

// checkDatabases runs the node's own integrity verification (C04).
func (s *ledgerSim) checkDatabases() {
	for _, n := range s.w.nodes {
		if len(n.m.Chain) < 2 {
			continue
		}
		err := visor.CheckDatabase(n.db, s.w.pubKey.pub, nil)
		s.c.Count("probe.checkdatabase_run")
		if err != nil {
			s.c.Violate("checkdatabase-fails", "checkdatabase", "node %d: the node's own database verification fails after the history: %v", n.id, err)
			return
		}
	}
}

func (s *ledgerSim) opQuery() {
	// C07 queries live in views.go
	s.queryViews()
}

var _ = bytes.Compare
