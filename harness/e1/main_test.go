package e1

import (
	"testing"

	"verifsim/sim"
)

// nontrivialLedger: a run counts as non-trivial when it appended at least two
// blocks beyond genesis on some node and at least one fault/mutation fired.
func nontrivialLedger(c *sim.Ctx) bool {
	faults := int64(0)
	for k, v := range c.Counters {
		if len(k) > 4 && (k[:4] == "mut." || k[:3] == "bm." || k[:6] == "fault.") {
			faults += v
		}
	}
	return c.Counters["block.accepted"]+c.Counters["block.created"] >= 2 && faults >= 1
}

func faultCount(c *sim.Ctx) int64 {
	n := int64(0)
	for k, v := range c.Counters {
		if len(k) > 6 && k[:6] == "fault." {
			n += v
		}
	}
	return n
}

func TestWorker(t *testing.T) {
	go apiWatchdog() // outside every bubble: real clock
	led := sim.Engine{Run: runLedger, Nontrivial: nontrivialLedger}
	crash := sim.Engine{Run: runCrash, Nontrivial: func(c *sim.Ctx) bool { return c.Counters["crash.states"] >= 4 }}
	sim.WorkerMain(t, map[string]sim.Engine{
		"C08": crash,
		"C10": {Run: runNetwork, Nontrivial: func(c *sim.Ctx) bool {
			n := int64(0)
			for k, v := range c.Counters {
				if len(k) > 13 && k[:13] == "fault.tamper." {
					n += v
				}
			}
			return n >= 1
		}},
		"C23":  {Run: runNetwork, Nontrivial: func(c *sim.Ctx) bool { return c.Counters["wire.GIVB"]+c.Counters["wire.GIVT"] >= 2 }},
		"C27":  {Run: runAccess, Nontrivial: func(c *sim.Ctx) bool { return c.Counters["probe.refusal_expected"] >= 3 }},
		"C28c": {Run: runAPIConcurrent, Nontrivial: func(c *sim.Ctx) bool { return c.Step >= 10 }},
		"C19c": {Run: runAPIConcurrent, Nontrivial: func(c *sim.Ctx) bool { return c.Step >= 10 }},
		"C28":  {Run: runAPICrash, Nontrivial: func(c *sim.Ctx) bool { return c.Step >= 10 }},
		"C22":  {Run: runFraming, Nontrivial: func(c *sim.Ctx) bool { return c.Counters["probe.chunks"] >= 3 }},
		"C24":  {Run: runBookkeeping, Nontrivial: func(c *sim.Ctx) bool { return c.Counters["probe.bookkeeping_compared"] >= 5 }},
		"C25":  {Run: runIntroGate, Nontrivial: func(c *sim.Ctx) bool { return c.Step >= 5 }},
		"C33": {Run: runSync, Nontrivial: func(c *sim.Ctx) bool {
			return c.Counters["probe.blocks_appended_from_givb"] >= 1 && faultCount(c) >= 1
		}},
		"C01": led, "C02": led, "C03": led, "C04": led, "C05": led, "C06": led, "C07": led,
	})
}
