package e1

import (
	"github.com/skycoin/skycoin/src/cipher"

	"verifsim/model"
)

// Transaction mutations.  Each takes a well-formed signed transaction and
// breaks (or stresses) one rule.  The model, not this table, decides what the
// node must do with the result.
const (
	mutNone = iota
	mutDupInput
	mutCreateCoins
	mutDestroyCoins
	mutCreateHours
	mutZeroCoinOut
	mutWrongKeySig
	mutNullSig
	mutHighS
	mutRecidPlus4
	mutRecidFlip
	mutGarbageSig
	mutBadLength
	mutBadType
	mutBadInner
	mutUnknownInput
	mutDupOutput
	mutCoinOverflow
	mutHourOverflow
	mutNullAddr
	mutDropSig
	mutExtraSig
	mutSwapInputs
	mutFlipOutBit
	mutCount
)

var mutNames = [...]string{"none", "dup-input", "create-coins", "destroy-coins", "create-hours", "zero-coin-out", "wrong-key-sig",
	"null-sig", "high-s", "recid+4", "recid^1", "garbage-sig", "bad-length", "bad-type", "bad-inner", "unknown-input", "dup-output",
	"coin-overflow", "hour-overflow", "null-addr", "drop-sig", "extra-sig", "swap-inputs", "flip-out-bit"}

// mutate applies mutation k to a copy of t.  resign reports whether the
// header and signatures were recomputed after the change (mutations that are
// about the header or signatures keep them).
func (w *world) mutate(m *model.Ledger, t model.Txn, k int) model.Txn {
	tp := w.c.T
	x := model.Txn{Length: t.Length, Type: t.Type, Inner: t.Inner}
	x.Sigs = append([]model.Sig{}, t.Sigs...)
	x.In = append([]model.Hash{}, t.In...)
	x.Out = append([]model.Out{}, t.Out...)
	resign := false
	if len(x.Sigs) == 0 || len(x.In) == 0 || len(x.Out) == 0 || len(x.Sigs) != len(x.In) {
		// already structurally broken by an earlier mutation: leave as is
		return x
	}
	switch k {
	case mutDupInput:
		if len(x.In) == 1 && tp.Bool("mut-dup-nonadjacent") {
			// the same output named twice with another input in between ([X, Y, X]); Y's coins are paid out too
			for _, id := range w.ownedUnspents(m) {
				if id != x.In[0] {
					x.In = append(x.In, id)
					// what a double count of X would make look balanced: X twice plus Y
					if u, ok := m.Unspent[x.In[0]]; ok {
						x.Out[0].Coins += m.Unspent[id].Coins + u.Coins
					}
					break
				}
			}
		}
		x.In = append(x.In, x.In[0])
		resign = true
	case mutCreateCoins:
		x.Out[0].Coins += 1 + tp.Draw("mut-coins", 1000)
		resign = true
	case mutDestroyCoins:
		if x.Out[0].Coins > 1 {
			x.Out[0].Coins -= 1
			resign = true
		}
	case mutCreateHours:
		x.Out[0].Hours += 1 + tp.Draw("mut-hours", 1<<40)
		// push it beyond what the inputs hold
		var hin uint64
		for _, in := range x.In {
			if u, ok := m.Unspent[in]; ok {
				h, ov, _ := model.AccruedHours(u, m.Head().Head.Time)
				if !ov {
					hin += h.Uint64()
				}
			}
		}
		if tp.Bool("mut-hours-exceed") && x.Out[0].Hours <= hin && hin < ^uint64(0) {
			x.Out[0].Hours = hin + 1
		}
		resign = true
	case mutZeroCoinOut:
		x.Out = append(x.Out, model.Out{Addr: w.clients[0].m, Coins: 0, Hours: 0})
		resign = true
	case mutWrongKeySig:
		i := tp.Int("mut-sig-i", len(x.Sigs))
		w.signWith(&x, i, &w.forger)
	case mutNullSig:
		x.Sigs[tp.Int("mut-sig-i", len(x.Sigs))] = model.Sig{}
	case mutHighS:
		i := tp.Int("mut-sig-i", len(x.Sigs))
		x.Sigs[i] = model.Sig(model.NegateS([65]byte(x.Sigs[i])))
	case mutRecidPlus4:
		x.Sigs[tp.Int("mut-sig-i", len(x.Sigs))][64] += 4
	case mutRecidFlip:
		// bit 0 selects the other candidate key, bit 1 says "r overflowed the group order" (practically never true)
		x.Sigs[tp.Int("mut-sig-i", len(x.Sigs))][64] ^= []byte{1, 2, 3}[tp.Pick("mut-recid-bits", 2, 2, 1)]
	case mutGarbageSig:
		i := tp.Int("mut-sig-i", len(x.Sigs))
		copy(x.Sigs[i][:], tp.Bytes("mut-sig-bytes", 65))
		if tp.Bool("mut-sig-recid-ok") {
			x.Sigs[i][64] &= 3
		}
	case mutBadLength:
		x.Length = []uint32{x.Length + 1 + uint32(tp.Draw("mut-len", 3)), x.Length - 1, 0, 1, 0xffffffff}[tp.Pick("mut-len-kind", 3, 1, 2, 1, 1)]
	case mutBadType:
		x.Type = 1 + uint8(tp.Draw("mut-type", 255))
	case mutBadInner:
		if tp.Bool("mut-inner-of-confirmed") && len(m.Chain) > 1 {
			// the inner-hash field of a transaction the chain already holds (one every node has verified before) on a
			// transaction with other inputs; optionally the outputs are inflated as well - nothing is signed again
			b := &m.Chain[1+tp.Int("mut-inner-block", len(m.Chain)-1)]
			if len(b.Txns) > 0 {
				x.Inner = b.Txns[tp.Int("mut-inner-txn", len(b.Txns))].Inner
				if tp.Bool("mut-inner-inflate") {
					x.Out[0].Coins += 1 + tp.Draw("mut-coins", 1000)*1000000
				}
				break
			}
		}
		x.Inner[tp.Int("mut-inner-byte", 32)] ^= 1 << tp.Draw("mut-inner-bit", 8)
	case mutUnknownInput:
		if tp.Bool("mut-spent-input") && len(m.Spent) > 0 {
			// a long-spent output
			var best model.Hash
			first := true
			for id := range m.Spent {
				if first || lessHash(id, best) {
					best, first = id, false
				}
			}
			x.In[0] = best
		} else {
			x.In[0] = model.Sum(tp.Bytes("mut-unknown", 8))
		}
		resign = true
	case mutDupOutput:
		x.Out = append(x.Out, x.Out[0])
		resign = true
	case mutCoinOverflow:
		x.Out = append(x.Out, model.Out{Addr: w.clients[0].m, Coins: ^uint64(0) - tp.Draw("mut-ovf", 3), Hours: 0})
		if tp.Bool("mut-ovf-wrap-exact") {
			// make the wrapped sum equal the honest sum: +2^64 in total
			x.Out = append(x.Out, model.Out{Addr: w.clients[0].m, Coins: 1 + tp.Draw("mut-ovf2", 3), Hours: 1})
			var s uint64
			for _, o := range x.Out {
				s += o.Coins
			}
			var want uint64
			for _, o := range t.Out {
				want += o.Coins
			}
			x.Out[len(x.Out)-1].Coins += want - s
			if x.Out[len(x.Out)-1].Coins == 0 {
				x.Out[len(x.Out)-1].Coins = 1
			}
		}
		resign = true
	case mutHourOverflow:
		if tp.Chance("mut-hovf-near-max", 1, 2) && x.Out[0].Coins > 1 {
			// one output just below 2^64 hours (it earns past 2^64 as soon as time passes), the other chosen so
			// that the 64-bit sum of the output hours wraps to a small number
			a := tp.Draw("mut-hovf-a", 1000)
			x.Out[0].Hours = ^uint64(0) - a
			x.Out = append(x.Out, model.Out{Addr: w.clients[0].m, Coins: 1, Hours: a + 1 + tp.Draw("mut-hovf-k", 3)})
			x.Out[0].Coins--
			resign = true
			break
		}
		x.Out[0].Hours = 1 << 63
		x.Out = append(x.Out, model.Out{Addr: w.clients[0].m, Coins: 0, Hours: 1 << 63})
		// keep coins conserved: move one unit from output 0 if possible
		if x.Out[0].Coins > 1 {
			x.Out[0].Coins--
			x.Out[len(x.Out)-1].Coins = 1
		} else {
			x.Out = x.Out[:len(x.Out)-1]
			x.Out[0].Hours = ^uint64(0)
		}
		if tp.Bool("mut-hovf-wrap-small") && len(x.Out) > 1 {
			x.Out[len(x.Out)-1].Hours += tp.Draw("mut-hovf", 5)
		}
		resign = true
	case mutNullAddr:
		x.Out[0].Addr = model.Addr{}
		resign = true
	case mutDropSig:
		x.Sigs = x.Sigs[:len(x.Sigs)-1]
	case mutExtraSig:
		x.Sigs = append(x.Sigs, x.Sigs[0])
		x.Length = uint32(x.Size())
	case mutSwapInputs:
		if len(x.In) > 1 {
			x.In[0], x.In[1] = x.In[1], x.In[0]
			if tp.Bool("mut-swap-sigs-too") {
				x.Sigs[0], x.Sigs[1] = x.Sigs[1], x.Sigs[0]
			}
		}
	case mutFlipOutBit:
		i := tp.Int("mut-out-i", len(x.Out))
		switch tp.Pick("mut-out-field", 1, 1, 1) {
		case 0:
			x.Out[i].Coins ^= 1 << tp.Draw("mut-out-bit", 64)
		case 1:
			x.Out[i].Hours ^= 1 << tp.Draw("mut-out-bit", 64)
		case 2:
			x.Out[i].Addr[tp.Int("mut-out-abyte", 21)] ^= 1 << tp.Draw("mut-out-bit", 8)
		}
	}
	if resign {
		w.sign(m, &x)
	}
	return x
}

func lessHash(a, b model.Hash) bool {
	for i := range a {
		if a[i] != b[i] {
			return a[i] < b[i]
		}
	}
	return false
}

// Block mutations.
const (
	bmNone = iota
	bmVersion
	bmTime
	bmTimeEqual
	bmTimeHuge
	bmTimeHalf
	bmSeq
	bmFee
	bmPrev
	bmBody
	bmUxHash
	bmSigOtherKey
	bmSigFlip
	bmSigHighS
	bmSigRecid
	bmSigNull
	bmDropTxn
	bmDupTxn
	bmReorderTxns
	bmMutateTxn
	bmAppendTxn
	bmSecondGenesis
	bmOldBlock
	bmEmpty
	bmCount
)

var bmNames = [...]string{"none", "version", "time-low", "time-equal", "time-huge", "time-plus-2^63", "seq", "fee", "prev", "body", "uxhash", "sig-other-key",
	"sig-flip", "sig-high-s", "sig-recid", "sig-null", "drop-txn", "dup-txn", "reorder-txns", "mutate-txn", "append-txn",
	"second-genesis", "old-block", "empty"}

// signBlock signs the header with k.
func signBlock(b *model.Block, k *key) {
	b.Sig = model.Sig(cipher.MustSignHash(cipher.SHA256(b.Head.Hash()), k.sec))
}

// mkBlock builds the valid next block for ledger m from txns at time tm.
func mkBlock(m *model.Ledger, txns []model.Txn, tm uint64) model.Block {
	head := m.Head()
	b := model.Block{Txns: txns}
	b.Head = model.Header{Version: head.Head.Version, Time: tm, BkSeq: head.Head.BkSeq + 1,
		Prev: head.Head.Hash(), Body: model.BodyHash(txns), UxHash: m.UxHash}
	var fee uint64
	for i := range txns {
		if c := m.CheckSingle(&txns[i], m.Cfg.CreateBlock); c.FeeOK {
			fee += c.Fee
		}
	}
	b.Head.Fee = fee
	return b
}
