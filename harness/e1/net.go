package e1

import (
	"encoding/binary"
	"errors"
	"fmt"
	"io"
	"net"
	"sort"
	"testing/synctest"
	"time"

	"github.com/skycoin/skycoin/src/cipher"
	"github.com/skycoin/skycoin/src/daemon"
	"github.com/skycoin/skycoin/src/daemon/gnet"
	"github.com/skycoin/skycoin/src/params"
	"github.com/skycoin/skycoin/src/util/useragent"

	"verifsim/model"
	"verifsim/sim"
)

// ---- simulated connections --------------------------------------------------

type simAddr string

func (a simAddr) Network() string { return "tcp" }
func (a simAddr) String() string  { return string(a) }

// simConn is the net.Conn a real node writes its frames to.  Nothing is ever
// read from it: received bytes are fed to the pool by the simulator.
type simConn struct {
	local, remote simAddr
	out           [][]byte // one entry per Write call = one frame
	closed        bool
	failWrites    bool
}

var errClosedConn = errors.New("use of closed network connection")

func (c *simConn) Read(b []byte) (int, error) { return 0, io.EOF }
func (c *simConn) Write(b []byte) (int, error) {
	if c.closed {
		return 0, errClosedConn
	}
	if c.failWrites {
		return 0, errors.New("simulated write failure: connection reset by peer")
	}
	c.out = append(c.out, append([]byte{}, b...))
	return len(b), nil
}
func (c *simConn) Close() error                       { c.closed = true; return nil }
func (c *simConn) LocalAddr() net.Addr                { return c.local }
func (c *simConn) RemoteAddr() net.Addr               { return c.remote }
func (c *simConn) SetDeadline(t time.Time) error      { return nil }
func (c *simConn) SetReadDeadline(t time.Time) error  { return nil }
func (c *simConn) SetWriteDeadline(t time.Time) error { return nil }

// ---- nodes and links ----------------------------------------------------------

// netKnobs are the per-run protocol parameters (swarm style).
// nodeLimits: size limits of one node that differ from the rest of the network (legal: every node validates its
// outgoing limit against its OWN block size setting only)
type nodeLimits struct {
	blockSize uint32
	maxOut    uint64
}

type netKnobs struct {
	maxOutgoingMsgLen   uint64
	eventQueue          int // capacity of the daemon's event queue (0 = default)
	maxGetBlocksResp    uint64
	getBlocksRequestCnt uint64
	ipCountsMax         int
	maxTxnAnnounce      int
	maxIncomingMsgLen   int
}

type netNode struct {
	*node
	dm     *daemon.Daemon
	pool   *gnet.ConnectionPool
	ip     string
	port   uint16
	mirror uint32
	links  []*link
	dcfg   daemon.Config
	maxOut uint64 // this node's own maximum outgoing message length
}

// link is one connection as seen by one real node.
type link struct {
	id        int
	n         *netNode
	conn      *simConn
	gc        *gnet.Connection
	remote    string
	solicited bool
	peer      *link      // the other real node's end, if any
	chaos     *chaosPeer // or the scripted peer at the other end
	inbox     [][]byte   // frames in flight towards n
	dead      bool
	consumed  int // frames of conn.out already routed
}

// chaosPeer is a scripted remote endpoint.
type chaosPeer struct {
	name     string
	addr     string
	l        *link
	received [][]byte // frames the node sent to us
	closedBy string   // "", "node", "peer"
}

type netSim struct {
	c       *sim.Ctx
	w       *world
	nodes   []*netNode
	knobs   netKnobs
	perNode map[int]nodeLimits // per-node overrides of the size limits (by node id)
	// defaultConns: addresses configured as the network's default (trusted) peers
	defaultConns []string
	linkSeq      int
	// monitor is called for every frame a real node puts on the wire
	monitor func(from *netNode, l *link, frame []byte)
	// disconnect observer
	onDisconnect func(n *netNode, l *link, reason error)
	// onSendError sees every error of a node's send step (e.g. a message refused as too long)
	onSendError func(n *netNode, l *link, err error)
	genesisHash cipher.SHA256
}

func newNetSim(c *sim.Ctx, w *world) *netSim {
	ns := &netSim{c: c, w: w}
	gh := w.nodes[0].m.Chain[0].Head.Hash()
	ns.genesisHash = cipher.SHA256(gh)
	return ns
}

func (ns *netSim) drawKnobs(small bool) {
	t := ns.c.T
	minLen := uint64(4+4+(4+8+8+8+32+32+32+4+65)) + uint64(ns.w.mcfg.MaxBlockSize) // one maximum-size block in a GIVB
	ns.knobs = netKnobs{maxOutgoingMsgLen: 256 * 1024, maxGetBlocksResp: 20, getBlocksRequestCnt: 20, ipCountsMax: 3, maxTxnAnnounce: 16}
	if small {
		ns.knobs.maxOutgoingMsgLen = []uint64{minLen, minLen + 1, minLen + 200, minLen * 2, 256 * 1024}[t.Pick("knob-max-out-len", 2, 1, 2, 2, 2)]
		ns.knobs.maxGetBlocksResp = []uint64{1, 2, 3, 20, 200}[t.Pick("knob-max-getblocks-resp", 1, 2, 2, 3, 1)]
		ns.knobs.getBlocksRequestCnt = []uint64{1, 2, 5, 20}[t.Pick("knob-getblocks-req", 1, 2, 2, 3)]
		ns.knobs.maxTxnAnnounce = []int{1, 2, 16}[t.Pick("knob-txn-announce", 1, 1, 2)]
	}
	if ns.knobs.maxOutgoingMsgLen < minLen {
		ns.knobs.maxOutgoingMsgLen = minLen
	}
	ns.c.Knobs["max_out_len"] = int64(ns.knobs.maxOutgoingMsgLen)
	ns.c.Knobs["max_getblocks_resp"] = int64(ns.knobs.maxGetBlocksResp)
}

// addDaemon wraps an existing visor node into a real daemon (never Run).
func (ns *netSim) addDaemon(n *node, ip string, port uint16, mirror uint32) *netNode {
	gnet.EraseMessages()
	cfg := daemon.NewConfig()
	cfg.Daemon.Address = ip
	cfg.Daemon.Port = int(port)
	cfg.Daemon.BlockchainPubkey = ns.w.pubKey.pub
	cfg.Daemon.GenesisHash = ns.genesisHash
	cfg.Daemon.DataDirectory = fmt.Sprintf("%s/d%d", ns.c.Dir, n.id)
	cfg.Daemon.Mirror = mirror
	cfg.Daemon.UserAgent = useragent.Data{Coin: "skycoin", Version: "0.27.0"}
	cfg.Daemon.UnconfirmedVerifyTxn = params.VerifyTxn{BurnFactor: ns.w.mcfg.Unconfirmed.BurnFactor, MaxTransactionSize: ns.w.mcfg.Unconfirmed.MaxTxnSize, MaxDropletPrecision: ns.w.mcfg.Unconfirmed.MaxDecimals}
	cfg.Daemon.MaxBlockTransactionsSize = ns.w.mcfg.MaxBlockSize
	cfg.Daemon.MaxOutgoingMessageLength = ns.knobs.maxOutgoingMsgLen
	if lim, ok := ns.perNode[n.id]; ok {
		cfg.Daemon.MaxBlockTransactionsSize = lim.blockSize
		cfg.Daemon.MaxOutgoingMessageLength = lim.maxOut
	}
	cfg.Daemon.MaxGetBlocksResponseCount = ns.knobs.maxGetBlocksResp
	cfg.Daemon.GetBlocksRequestCount = ns.knobs.getBlocksRequestCnt
	cfg.Daemon.IPCountsMax = ns.knobs.ipCountsMax
	cfg.Daemon.MaxTxnAnnounceNum = ns.knobs.maxTxnAnnounce
	cfg.Pool.MaxOutgoingMessageLength = int(cfg.Daemon.MaxOutgoingMessageLength)
	if ns.knobs.maxIncomingMsgLen > 0 {
		cfg.Pool.MaxIncomingMessageLength = ns.knobs.maxIncomingMsgLen
		cfg.Daemon.MaxIncomingMessageLength = uint64(ns.knobs.maxIncomingMsgLen)
	}
	if ns.knobs.eventQueue > 0 {
		cfg.Pool.EventChannelSize = ns.knobs.eventQueue
	}
	if len(ns.defaultConns) > 0 {
		cfg.Pex.DefaultConnections = append([]string{}, ns.defaultConns...)
		cfg.Daemon.DefaultConnections = append([]string{}, ns.defaultConns...)
		cfg.Pool.DefaultConnections = append([]string{}, ns.defaultConns...)
	}
	cfg.Pex.DataDirectory = cfg.Daemon.DataDirectory
	cfg.Pex.Max = 64
	if err := mkdirAll(cfg.Daemon.DataDirectory); err != nil {
		sim.Harnessf("mkdir: %v", err)
	}
	dm, err := daemon.New(cfg, n.v)
	if err != nil {
		sim.Harnessf("daemon.New: %v", err)
	}
	nn := &netNode{node: n, dm: dm, pool: dm.VerifGnetPool(), ip: ip, port: port, mirror: mirror, dcfg: cfg, maxOut: cfg.Daemon.MaxOutgoingMessageLength}
	go nn.pool.RunOffline() //nolint:errcheck // the strand server: a pure rendez-vous goroutine inside the bubble
	ns.nodes = append(ns.nodes, nn)
	return nn
}

func (ns *netSim) shutdown() {
	for _, n := range ns.nodes {
		n.pool.Shutdown()
		n.dm.VerifPex() // keep reference
	}
}

// attach registers a new connection with node n.
func (ns *netSim) attach(n *netNode, remote string, solicited bool) (*link, error) {
	ns.linkSeq++
	l := &link{id: ns.linkSeq, n: n, remote: remote, solicited: solicited,
		conn: &simConn{local: simAddr(fmt.Sprintf("%s:%d", n.ip, n.port)), remote: simAddr(remote)}}
	gc, err := n.pool.VerifAddConn(l.conn, solicited)
	if err != nil {
		l.dead = true
		return l, err
	}
	l.gc = gc
	n.links = append(n.links, l)
	return l, nil
}

// connectNodes establishes a connection a -> b (a dials b).
func (ns *netSim) connectNodes(a, b *netNode, ephemeral uint16) (*link, *link, error) {
	baddr := fmt.Sprintf("%s:%d", b.ip, b.port)
	// a node only dials peers from its peer list
	if err := a.dm.VerifPex().AddPeer(baddr); err != nil {
		return nil, nil, err
	}
	if err := a.dm.VerifPending(baddr); err != nil {
		return nil, nil, err
	}
	la, err := ns.attach(a, baddr, true)
	if err != nil {
		return la, nil, err
	}
	lb, err := ns.attach(b, fmt.Sprintf("%s:%d", a.ip, ephemeral), false)
	if err != nil {
		// b refused: a sees the connection close
		ns.peerClosed(la, "remote refused")
		return la, lb, err
	}
	la.peer, lb.peer = lb, la
	return la, lb, nil
}

// peerClosed tells the node behind l that the remote end went away.
func (ns *netSim) peerClosed(l *link, why string) {
	if l.dead {
		return
	}
	reason := gnet.ReadError{Err: io.EOF}
	_ = l.n.pool.Disconnect(l.remote, &reason)
	ns.afterDisconnect(l, &reason)
}

func (ns *netSim) afterDisconnect(l *link, reason error) {
	if l.dead {
		return
	}
	l.dead = true
	l.inbox = nil
	if ns.onDisconnect != nil {
		ns.onDisconnect(l.n, l, reason)
	}
	if l.peer != nil && !l.peer.dead {
		ns.peerClosed(l.peer, "peer closed")
	}
	if l.chaos != nil && l.chaos.closedBy == "" {
		l.chaos.closedBy = "node"
	}
}

// route moves frames a node wrote on l to the other end and shows them to the monitor.
func (ns *netSim) route(l *link) bool {
	moved := false
	for l.consumed < len(l.conn.out) {
		f := l.conn.out[l.consumed]
		l.consumed++
		moved = true
		if ns.monitor != nil {
			ns.monitor(l.n, l, f)
		}
		switch {
		case l.peer != nil && !l.peer.dead:
			l.peer.inbox = append(l.peer.inbox, f)
		case l.chaos != nil:
			l.chaos.received = append(l.chaos.received, f)
		}
	}
	return moved
}

// pump drains event queues, write queues and send results of every node, in
// canonical order, until the system is quiescent.
func (ns *netSim) pump() {
	for iter := 0; iter < 10000; iter++ {
		progress := false
		for _, n := range ns.nodes {
			if n.dm.VerifDrainEvents(10000) > 0 {
				progress = true
			}
		}
		for _, n := range ns.nodes {
			for _, l := range n.links {
				if l.dead || l.gc == nil {
					continue
				}
				for {
					sent, err := n.pool.VerifSendOne(l.gc)
					if ns.route(l) {
						progress = true
					}
					if err != nil {
						if ns.onSendError != nil {
							ns.onSendError(n, l, err)
						}
						_ = n.pool.Disconnect(l.remote, err)
						ns.afterDisconnect(l, err)
						progress = true
						break
					}
					if !sent {
						break
					}
					progress = true
				}
				// a connection the node closed itself (Disconnect from a handler)
				if !l.dead && l.conn.closed {
					ns.afterDisconnect(l, errors.New("closed by node"))
					progress = true
				}
			}
		}
		for _, n := range ns.nodes {
			if n.dm.VerifDrainSendResults(10000) > 0 {
				progress = true
			}
		}
		// closing after a DISC send result
		for _, n := range ns.nodes {
			for _, l := range n.links {
				if !l.dead && l.conn.closed {
					ns.afterDisconnect(l, errors.New("closed by node"))
					progress = true
				}
			}
		}
		if !progress {
			return
		}
	}
	sim.Harnessf("network did not become quiescent")
}

// deliver feeds one frame (or arbitrary bytes) to the node behind l, cut into chunks.
func (ns *netSim) deliver(l *link, data []byte, cuts []int) {
	if l.dead {
		return
	}
	prev := 0
	feed := func(b []byte) bool {
		if len(b) == 0 {
			return true
		}
		if err := l.n.pool.VerifFeed(l.gc, b); err != nil {
			_ = l.n.pool.Disconnect(l.remote, err)
			ns.afterDisconnect(l, err)
			return false
		}
		return !l.conn.closed
	}
	sort.Ints(cuts)
	for _, c := range cuts {
		if c <= prev || c >= len(data) {
			continue
		}
		if !feed(data[prev:c]) {
			return
		}
		prev = c
	}
	feed(data[prev:])
}

// deliverUnderBackPressure: like deliver, for a node whose event queue may be shorter than the burst.  The bytes are
// fed from a goroutine of their own; when the queue is full that goroutine blocks in the node's own code (durably: a
// channel send), the bubble becomes quiescent, and the run loop's work is done here - events are drained and handled -
// until the feeder has finished.  One goroutine runs at a time, so the run stays a function of the tape.
func (ns *netSim) deliverUnderBackPressure(l *link, data []byte, cuts []int) {
	done := make(chan struct{})
	go func() {
		defer close(done)
		ns.deliver(l, data, cuts)
	}()
	for i := 0; ; i++ {
		synctest.Wait()
		select {
		case <-done:
			return
		default:
		}
		ns.c.Count("fault.event_queue_full_back_pressure")
		ns.pump()
		if i > 100000 {
			sim.Harnessf("delivery under back-pressure does not end")
		}
	}
}

// ---- frames ---------------------------------------------------------------------

// frame builds a wire frame: 4-byte little-endian length of (prefix+body), 4-byte prefix, body.
func frame(prefix string, body []byte) []byte {
	f := make([]byte, 8+len(body))
	binary.LittleEndian.PutUint32(f, uint32(4+len(body)))
	copy(f[4:8], prefix)
	copy(f[8:], body)
	return f
}

type encoderMsg interface {
	EncodeSize() uint64
	Encode([]byte) error
}

func body(m encoderMsg) []byte {
	b := make([]byte, m.EncodeSize())
	if err := m.Encode(b); err != nil {
		sim.Harnessf("encode message: %v", err)
	}
	return b
}

// parseFrame splits a frame written by a node into prefix and body.
func parseFrame(f []byte) (string, []byte, bool) {
	if len(f) < 8 || int(binary.LittleEndian.Uint32(f)) != len(f)-4 {
		return "", nil, false
	}
	return string(f[4:8]), f[8:], true
}

func (ns *netSim) introFrame(mirror uint32, listenPort uint16, version int32, pub cipher.PubKey, extraTail []byte) []byte {
	m := daemon.NewIntroductionMessage(mirror, version, listenPort, pub, "skycoin:0.27.0",
		params.VerifyTxn{BurnFactor: 10, MaxTransactionSize: 32768, MaxDropletPrecision: 3}, ns.genesisHash)
	m.Extra = append(m.Extra, extraTail...)
	return frame("INTR", body(m))
}

func blocksFrame(bs []model.Block) []byte {
	m := &daemon.GiveBlocksMessage{}
	for i := range bs {
		m.Blocks = append(m.Blocks, cBlock(&bs[i]))
	}
	return frame("GIVB", body(m))
}
