package e1

import (
	"errors"
	"fmt"
	"sort"
	"strings"
	"time"

	"github.com/skycoin/skycoin/src/cipher"
	"github.com/skycoin/skycoin/src/cipher/encoder"
	"github.com/skycoin/skycoin/src/daemon"
	"github.com/skycoin/skycoin/src/daemon/gnet"

	"verifsim/model"
	"verifsim/sim"
)

// A small network of real nodes: the publisher and 1-2 followers, each a real
// visor + bolt + daemon handlers + gnet pool, connected by simulated links
// whose frames are delivered in tape order.  Behind C23 (every frame a node
// builds fits and is the longest fitting prefix) and C10 (a Byzantine relay
// rewrites signed objects in flight; nothing it produces may be accepted).

type netRun struct {
	c     *sim.Ctx
	w     *world
	ns    *netSim
	nodes []*netNode
	prop  string
	// C23, small-limits profile: the scripted peer that announces hash lists, and the node it talks to
	hashPeer     *chaosPeer
	hashPeerNode *netNode
	flood        bool
	tight        bool // followers with their own, much smaller size limits than the publisher's blocks
	latePeers    int
	annt         map[*link][]int // ANNT frames of the current step per link: number of hashes
	// C23
	lastGetB map[*link]daemon.GetBlocksMessage // last GETB delivered to the owner of the link
	lastGetT map[*link][]cipher.SHA256
	expGivT  map[*link]expGivT // what the reply to the scripted peer's last GETT must be
	// C10: byte strings honest signers emitted
	honestTxn map[model.Hash]bool
	pubBlocks map[uint64]model.Block
	tampered  int
	desync    bool
}

func runNetwork(c *sim.Ctx) {
	t := c.T
	followers := 1 + t.Int("net-followers", 2)
	// C23: in a third of the runs the size limits sit at their legal minimum, which makes outgoing-length limits of
	// 1.2-9 KB legal: only there do the hash-list messages (at most 256 hashes, 8.2 KB) need truncation
	small := c.Property == "C23" && t.Chance("small-limits", 1, 3)
	w := newWorld(c, followers, worldOpts{hugeWeight: 0, smallSizes: small})
	defer w.closeAll()
	r := &netRun{c: c, w: w, prop: c.Property, lastGetB: map[*link]daemon.GetBlocksMessage{}, lastGetT: map[*link][]cipher.SHA256{},
		honestTxn: map[model.Hash]bool{}, pubBlocks: map[uint64]model.Block{}, expGivT: map[*link]expGivT{}}
	r.ns = newNetSim(c, w)
	r.ns.drawKnobs(true)
	if small {
		// any length from the legal minimum up to where 256 hashes fit, every residue modulo the hash size
		minLen := uint64(4+4+(4+8+8+8+32+32+32+4+65)) + uint64(w.mcfg.MaxBlockSize)
		r.ns.knobs.maxOutgoingMsgLen = minLen + uint64(t.Int("small-max-out-len", 7400))
		r.ns.knobs.maxTxnAnnounce = []int{16, 64, 256}[t.Int("small-txn-announce", 3)]
		c.Knobs["max_out_len"] = int64(r.ns.knobs.maxOutgoingMsgLen)
		c.Count("mode.small_limits")
		if t.Chance("flood-profile", 1, 2) {
			// announcements of more transaction hashes than fit: needs a pool of more than (limit-8)/32 transactions,
			// hence many spendable outputs.  The chain starts with a few fan-out blocks every node already has, the
			// limit stays in the lower part of its range and one announcement may carry up to 256 hashes.
			r.flood = true
			r.ns.knobs.maxOutgoingMsgLen = minLen + uint64(t.Int("flood-max-out-len", 1400))
			r.ns.knobs.maxTxnAnnounce = []int{256, 64}[t.Int("flood-txn-announce", 2)]
			c.Knobs["max_out_len"] = int64(r.ns.knobs.maxOutgoingMsgLen)
			r.prefund(3 + t.Int("prefund-blocks", 3))
			c.Count("mode.flood")
		}
	}
	if c.Property == "C23" && !small && t.Chance("long-chain", 1, 12) {
		// a publisher far ahead of its peers and an operator who raised the response cap above the number of blocks
		// one message may carry (128): replies must still stop at 128
		r.ns.knobs.maxGetBlocksResp = []uint64{200, 129, 1000}[t.Int("long-resp-cap", 3)]
		r.ns.knobs.getBlocksRequestCnt = []uint64{200, 130, 1000}[t.Int("long-req-cnt", 3)]
		r.ns.knobs.maxOutgoingMsgLen = 1 << 20
		c.Knobs["max_out_len"] = int64(r.ns.knobs.maxOutgoingMsgLen)
		c.Knobs["max_getblocks_resp"] = int64(r.ns.knobs.maxGetBlocksResp)
		r.longChain(130 + t.Int("long-chain-extra", 40))
		c.Count("mode.long_chain")
		c.Notef("long chain: publisher head %d", len(r.w.nodes[0].m.Chain)-1)
	}
	if c.Property == "C23" && !small && r.ns.knobs.maxGetBlocksResp <= 128 && t.Chance("tight-relay", 1, 6) {
		// followers run with their own block size setting at the legal minimum and an outgoing limit just above what
		// that requires - legal, every node validates its limit against its own setting only - while the publisher
		// makes blocks as large as the network-wide setting allows: a follower that is asked for blocks may hold blocks
		// that do not fit any message it may send
		r.tight = true
		r.ns.perNode = map[int]nodeLimits{}
		for i := 1; i < len(w.nodes); i++ {
			minLen := uint64(4+4+(4+8+8+8+32+32+32+4+65)) + 1024
			r.ns.perNode[w.nodes[i].id] = nodeLimits{blockSize: 1024, maxOut: minLen + uint64(t.Int("tight-max-out-len", 1500))}
		}
		c.Count("mode.tight_relay")
	}
	defer r.ns.shutdown()
	for i, n := range w.nodes {
		r.nodes = append(r.nodes, r.ns.addDaemon(n, fmt.Sprintf("10.0.0.%d", i+1), 6000, uint32(0x100+i)))
	}
	r.ns.monitor = r.monitor
	r.ns.onSendError = func(n *netNode, l *link, err error) {
		if r.prop == "C23" && errors.Is(err, gnet.ErrMsgExceedsMaxLen) {
			what := "?"
			c.Violate("built-message-does-not-fit", "exceeds-max-len", "node %d built a message for %s that its own send step refuses as longer than the configured maximum (%d): %v [%s]", n.id, l.remote, n.maxOut, err, what)
		} else if r.prop == "C23" && (errors.Is(err, encoder.ErrMaxLenExceeded) || strings.Contains(err.Error(), "exceeds")) {
			// the simulated connection itself never fails a write: what remains is a message the node built and cannot encode
			c.Violate("built-message-cannot-be-encoded", "item-cap", "node %d built a message for %s that cannot be encoded (more items than the message type allows?): %v", n.id, l.remote, err)
		}
	}
	// topology: every follower dials the publisher; with two followers the second may dial the first instead
	for i := 1; i < len(r.nodes); i++ {
		target := r.nodes[0]
		if i == 2 && (t.Bool("chain-topology") || r.tight) {
			target = r.nodes[1]
		}
		if _, _, err := r.ns.connectNodes(r.nodes[i], target, uint16(40000+i)); err != nil {
			sim.Harnessf("connect nodes: %v", err)
		}
		r.ns.pump()
		r.drainAll()
	}
	if small || r.tight {
		// a scripted peer that announces long lists of transaction hashes nobody has: the node asks for them
		target := r.nodes[t.Int("hash-peer-target", len(r.nodes))]
		if r.tight {
			target = r.nodes[1+t.Int("tight-peer-target", len(r.nodes)-1)]
		}
		cp, err := r.ns.newChaos(target, "hashpeer", "10.0.9.1:7000")
		if err != nil {
			sim.Harnessf("attach hash peer: %v", err)
		}
		r.ns.pump()
		r.ns.deliver(cp.l, r.ns.introFrame(0x9001, 7000, 2, w.pubKey.pub, nil), nil)
		r.ns.pump()
		r.hashPeer, r.hashPeerNode = cp, target
	}
	steps := t.Range("net-steps", 20, 90)
	c.Sample = append(c.Sample, fmt.Sprintf("%d real nodes, max outgoing length %d, response cap %d, %d events", len(r.nodes), r.ns.knobs.maxOutgoingMsgLen, r.ns.knobs.maxGetBlocksResp, steps))
	for c.Step = 1; c.Step <= steps && !c.Failed() && !r.desync; c.Step++ {
		r.step()
		if c.Failed() || r.desync {
			return
		}
		r.invariants()
	}
	if c.Failed() {
		return
	}
	// let everything in flight arrive
	for i := 0; i < 200 && r.deliverOne(false); i++ {
	}
	r.invariants()
}

// drainAll delivers every frame in flight without faults (used during setup).
func (r *netRun) drainAll() {
	for i := 0; i < 1000 && r.deliverOne(false); i++ {
	}
}

func (r *netRun) pendingLinks() []*link {
	var ls []*link
	for _, n := range r.nodes {
		for _, l := range n.links {
			if !l.dead && len(l.inbox) > 0 {
				ls = append(ls, l)
			}
		}
	}
	sort.Slice(ls, func(i, j int) bool { return ls[i].id < ls[j].id })
	return ls
}

// deliverOne delivers the next frame of a tape-chosen link, possibly with a fault.
func (r *netRun) deliverOne(faults bool) bool {
	c := r.c
	t := c.T
	ls := r.pendingLinks()
	if len(ls) == 0 {
		return false
	}
	l := ls[0]
	if faults {
		l = ls[t.Int("deliver-link", len(ls))]
	}
	f := l.inbox[0]
	l.inbox = l.inbox[1:]
	var cuts []int
	label := "deliver"
	if faults {
		switch t.Pick("frame-fault", 12, 1, 1, 2, 4) {
		case 1:
			c.Count("fault.frame_dropped")
			c.Logf("frame to n%d dropped", l.n.id)
			return true
		case 2:
			l.inbox = append([][]byte{f}, l.inbox...)
			c.Count("fault.frame_duplicated")
			label = "deliver(duplicated)"
		case 3:
			for i := 0; i < 1+t.Int("chunks", 4); i++ {
				cuts = append(cuts, 1+t.Int("cut", len(f)-1))
			}
			c.Count("fault.chunked_delivery")
		case 4:
			if r.prop == "C10" {
				if nf, what := r.tamper(f); nf != nil {
					f = nf
					label = "deliver(tampered:" + what + ")"
					c.Count("fault.tamper." + what)
					r.tampered++
				}
			}
		}
	}
	if p, b, ok := parseFrame(f); ok {
		switch p {
		case "GETB":
			var g daemon.GetBlocksMessage
			if _, err := g.Decode(b); err == nil {
				r.lastGetB[l] = g
			}
		case "GETT":
			var g daemon.GetTxnsMessage
			if _, err := g.Decode(b); err == nil {
				r.lastGetT[l] = g.Transactions
			}
		}
		c.Logf("%s %s to n%d (%d bytes)", label, p, l.n.id, len(f))
	}
	r.ns.deliver(l, f, cuts)
	r.ns.pump()
	return true
}

// announceHashes: the scripted peer announces n hashes (mostly unknown to the node) and the node's GETT answer is
// compared with the longest prefix of the unknown ones that fits the limit.
func (r *netRun) announceHashes() {
	c := r.c
	t := c.T
	cp, n := r.hashPeer, r.hashPeerNode
	if cp == nil || cp.l.dead {
		return
	}
	cnt := []int{3, 30, 40, 100, 255, 256}[t.Pick("hash-count", 1, 2, 2, 2, 1, 2)]
	hs := make([]cipher.SHA256, cnt)
	for i := range hs {
		copy(hs[i][:], t.Bytes("hash", 32))
		hs[i][0] |= 1 // never the zero hash
	}
	// some the node already has in its pool: those are not asked for
	var known []cipher.SHA256
	for _, h := range n.m.PoolHashes() {
		known = append(known, cipher.SHA256(h))
	}
	isKnown := map[cipher.SHA256]bool{}
	for i := 0; i < len(known) && i < 3; i++ {
		k := t.Int("known-at", cnt)
		hs[k] = known[i]
		isKnown[known[i]] = true
	}
	before := len(cp.received)
	m := daemon.NewAnnounceTxnsMessage(hs, 1<<20)
	r.ns.deliver(cp.l, frame("ANNT", body(m)), nil)
	r.ns.pump()
	c.Count("fault.hash_list_announced")
	c.Kind(9, true)
	c.Logf("hash peer announces %d hashes (%d known) to node %d", cnt, len(isKnown), n.id)
	max := n.maxOut
	fit := uint64(0)
	if max >= 8 {
		fit = (max - 8) / 32 // id (4) + count (4) + 32 n <= max
	}
	if fit > 256 {
		fit = 256
	}
	for _, f := range cp.received[before:] {
		p, b, ok := parseFrame(f)
		if !ok || p != "GETT" {
			continue
		}
		var g daemon.GetTxnsMessage
		if _, err := g.Decode(b); err != nil {
			c.Violate("malformed-frame-sent", "GETT", "node %d sent an undecodable GETT: %v", n.id, err)
			return
		}
		// The request must be the longest fitting prefix of the announced hashes the node does not have.  Which of the
		// planted pool hashes the node really has is its own business (its pool may lag the shadow model), so: the
		// request is a subsequence of the announcement that skips planted hashes only, it is never longer than what
		// fits, and if it is shorter than what fits nothing but planted hashes may follow its last element.
		if uint64(len(g.Transactions)) > fit {
			c.Violate("not-longest-fitting-prefix", "GETT:more", "node %d asked for %d hashes; at most %d fit %d bytes (cap 256)", n.id, len(g.Transactions), fit, max)
			return
		}
		pos := 0
		for i, want := range g.Transactions {
			for pos < len(hs) && hs[pos] != want {
				if !isKnown[hs[pos]] {
					c.Violate("not-longest-fitting-prefix", "GETT:not-a-prefix", "node %d's GETT skips announced hash number %d, which it cannot have, before its element %d", n.id, pos, i)
					return
				}
				pos++
			}
			if pos == len(hs) {
				c.Violate("not-longest-fitting-prefix", "GETT:not-a-prefix", "node %d's GETT element %d is not among the announced hashes (in order)", n.id, i)
				return
			}
			pos++
		}
		if uint64(len(g.Transactions)) < fit {
			for ; pos < len(hs); pos++ {
				if !isKnown[hs[pos]] {
					c.Violate("not-longest-fitting-prefix", "GETT:fewer", "node %d asked for %d hashes although %d fit %d bytes and announced hash number %d, which it cannot have, was left out", n.id, len(g.Transactions), fit, max, pos)
					return
				}
			}
		} else if len(hs)-len(isKnown) > len(g.Transactions) {
			c.Count("probe.gett_truncated_by_length")
		}
		c.Count("probe.gett_prefix_checked")
		return
	}
	if !cp.l.dead {
		c.Count("probe.gett_missing")
	}
}

// prefund: k blocks, each spending one large output into 20, made by the publisher and given to every node
// before the network exists, so that a few dozen independent transactions can be pending at once later.
func (r *netRun) prefund(k int) {
	pub := r.w.nodes[0]
	for i := 0; i < k; i++ {
		tx, ok := r.w.mkFanOut(pub.m, 20)
		if !ok {
			return
		}
		if _, _, err := pub.v.InjectForeignTransaction(cTxn(&tx)); err != nil {
			return
		}
		pub.m.InjectForeign(&tx, pub.m.Cfg.Unconfirmed)
		r.honestTxn[tx.Hash()] = true
		time.Sleep(time.Duration(1+r.c.T.Int("prefund-gap", 10)) * time.Second)
		sb, err := pub.v.CreateAndExecuteBlock()
		if err != nil {
			return
		}
		mb := mBlock(&sb)
		if v := pub.m.CheckBlock(&mb); v.V != model.Accept {
			r.desync = true
			return
		}
		pub.m.Apply(mb)
		r.pubBlocks[mb.Head.BkSeq] = mb
		for _, f := range r.w.nodes[1:] {
			if err := f.v.ExecuteSignedBlock(sb); err != nil {
				sim.Harnessf("prefund: follower refused publisher block: %v", err)
			}
			f.m.Apply(mb)
		}
		r.c.Count("block.created")
	}
}

// longChain: the publisher alone makes k one-transaction blocks before the network exists.
func (r *netRun) longChain(k int) {
	pub := r.w.nodes[0]
	burn := uint64(pub.m.Cfg.Unconfirmed.BurnFactor)
	if cb := uint64(pub.m.Cfg.CreateBlock.BurnFactor); cb > burn {
		burn = cb
	}
	for i := 0; i < k; i++ {
		// the owned output with the most hours is moved on, paying exactly the required fee
		var best model.Hash
		var bh uint64
		for _, id := range r.w.ownedUnspents(pub.m) {
			u := pub.m.Unspent[id]
			if u.Addr == r.w.locked.m || u.Coins < 1000000 || u.Coins%1000000 != 0 {
				continue
			}
			if h, ov, inter := model.AccruedHours(u, pub.m.Head().Head.Time); !ov && !inter && h.IsUint64() && h.Uint64() > bh {
				best, bh = id, h.Uint64()
			}
		}
		if bh < 2 {
			return
		}
		tx, ok := r.w.mkSpendTo(pub.m, []model.Hash{best}, bh-(bh+burn-1)/burn, r.w.clients[i%len(r.w.clients)].m)
		if !ok {
			return
		}
		exp, _ := pub.m.InjectForeign(&tx, pub.m.Cfg.Unconfirmed)
		_, _, err := pub.v.InjectForeignTransaction(cTxn(&tx))
		if (err == nil) != (exp.Class == model.OK || exp.Class == model.Soft) {
			r.desync = true
			return
		}
		r.honestTxn[tx.Hash()] = true
		time.Sleep(time.Duration(1+r.c.T.Int("long-gap", 5)) * time.Second)
		sb, err := pub.v.CreateAndExecuteBlock()
		if err != nil {
			r.c.Notef("long chain stopped at block %d: %v", i, err)
			return
		}
		mb := mBlock(&sb)
		if v := pub.m.CheckBlock(&mb); v.V != model.Accept {
			r.desync = true
			return
		}
		pub.m.Apply(mb)
		r.pubBlocks[mb.Head.BkSeq] = mb
		r.c.Count("block.created")
	}
}

// floodPool hands one node many small independent transactions.
func (r *netRun) floodPool() {
	c := r.c
	n := r.hashPeerNode
	pub := r.nodes[0]
	used := map[model.Hash]bool{}
	for _, e := range pub.m.Pool {
		for _, in := range e.Txn.In {
			used[in] = true
		}
	}
	want := 20 + c.T.Int("flood-count", 60)
	made := 0
	burn := uint64(pub.m.Cfg.Unconfirmed.BurnFactor)
	for _, id := range r.w.ownedUnspents(pub.m) {
		if made >= want {
			break
		}
		u := pub.m.Unspent[id]
		if used[id] || u.Addr == r.w.locked.m {
			continue
		}
		h, ov, inter := model.AccruedHours(u, pub.m.Head().Head.Time)
		if ov || inter || !h.IsUint64() || h.Uint64() < 2 {
			continue
		}
		fee := (h.Uint64() + burn - 1) / burn
		tx, ok := r.w.mkSpendOf(pub.m, []model.Hash{id}, h.Uint64()-fee)
		if !ok {
			continue
		}
		if _, _, err := n.v.InjectForeignTransaction(cTxn(&tx)); err != nil {
			continue
		}
		r.honestTxn[tx.Hash()] = true
		pub.m.Pool[tx.Hash()] = &model.PoolEntry{Txn: tx, Valid: true}
		if n != pub {
			// keep the publisher's shadow pool honest: it only mirrors what the publisher itself holds
			delete(pub.m.Pool, tx.Hash())
			used[id] = true
		}
		made++
	}
	r.ns.pump()
	c.CountN("probe.flood_txns_injected", int64(made))
	c.Kind(10, made > 0)
	c.Logf("flood: %d small transactions handed to n%d", made, n.id)
}

// latePeer: a new peer connects to the flooded node and introduces itself; the node then announces every valid
// pending transaction to its peers, in messages of up to MaxTxnAnnounceNum hashes that must each be cut to fit.
func (r *netRun) latePeer() {
	c := r.c
	n := r.hashPeerNode
	if r.latePeers >= 3 {
		return
	}
	r.latePeers++
	cp, err := r.ns.newChaos(n, fmt.Sprintf("late%d", r.latePeers), fmt.Sprintf("10.0.9.%d:7000", 1+r.latePeers))
	if err != nil {
		return
	}
	r.ns.pump()
	hs, herr := n.v.GetAllValidUnconfirmedTxHashes()
	r.annt = map[*link][]int{}
	r.ns.deliver(cp.l, r.ns.introFrame(uint32(0x9100+r.latePeers), 7000, 2, r.w.pubKey.pub, nil), nil)
	r.ns.pump()
	burst := r.annt
	r.annt = nil
	c.Count("fault.late_peer_introduces")
	c.Kind(11, true)
	c.Logf("late peer %s introduces itself to n%d holding %d valid pending transactions", cp.addr, n.id, len(hs))
	if herr != nil || c.Failed() {
		return
	}
	max := n.maxOut
	fit := 0
	if max >= 8 {
		fit = int((max - 8) / 32)
	}
	chunk := r.ns.knobs.maxTxnAnnounce
	if chunk > 256 {
		chunk = 256
	}
	full := chunk
	if fit < full {
		full = fit
	}
	for l, lens := range burst {
		if l.n != n {
			continue
		}
		for i, k := range lens {
			if i < len(lens)-1 && k != full {
				kind := "fewer"
				if k > full {
					kind = "more"
				}
				c.Violate("not-longest-fitting-prefix", "ANNT:"+kind, "node %d announced %d pending transactions to %s in messages of %v hashes; every message but the last must carry min(%d per message, %d that fit %d bytes) = %d", n.id, len(hs), l.remote, lens, chunk, fit, max, full)
				return
			}
		}
		if len(lens) > 0 {
			c.Count("probe.annt_burst_checked")
			if len(hs) > fit && chunk > fit {
				c.Count("probe.annt_truncated_by_length")
			}
		}
	}
}

func (r *netRun) step() {
	c := r.c
	t := c.T
	if r.hashPeer != nil && t.Chance("hash-peer-op", 1, 5) {
		switch t.Pick("hash-peer-what", 3, 3, 2) {
		case 0:
			r.announceHashes()
		case 1:
			r.askTxns()
		case 2:
			r.askBlocks()
		}
		return
	}
	if r.flood && t.Chance("flood-op", 1, 4) {
		if t.Bool("flood-or-late-peer") {
			r.floodPool()
		} else {
			r.latePeer()
		}
		return
	}
	switch t.Pick("net-op", 10, 6, 3, 3, 2, 2) {
	case 0:
		if !r.deliverOne(true) {
			r.clientOp()
		}
		c.Kind(1, true)
	case 1:
		r.clientOp()
	case 2: // the publisher's block timer
		time.Sleep(time.Duration(1+t.Int("block-gap", 15)) * time.Second)
		pub := r.nodes[0]
		head := len(pub.m.Chain)
		err := pub.dm.VerifTick("blockCreation")
		// bring the shadow model up to date before anything is sent
		if h, _, _ := pub.v.HeadBkSeq(); int(h) == head {
			sb, gerr := pub.v.GetSignedBlockBySeq(h)
			if gerr == nil && sb != nil {
				mb := mBlock(sb)
				if v := pub.m.CheckBlock(&mb); v.V == model.Accept {
					pub.m.Apply(mb)
					r.pubBlocks[h] = mb
					c.Count("block.created")
				} else {
					// C04/C05's matter (or the undecided overflow region): the shadow model cannot follow
					c.Count("desync.publisher_block")
					r.desync = true
				}
			}
		}
		r.ns.pump()
		c.Kind(2, err == nil)
		c.Logf("publisher block timer -> %v", err)
	case 3:
		n := r.nodes[t.Int("node", len(r.nodes))]
		name := []string{"blocksRequest", "blocksAnnounce", "unconfirmedRefresh", "unconfirmedRemoveInvalid", "flushAnnouncedTxns", "idleCheck"}[t.Pick("net-tick", 3, 2, 2, 1, 1, 1)]
		_ = n.dm.VerifTick(name)
		r.ns.pump()
		c.Kind(3, true)
		c.Logf("n%d tick %s", n.id, name)
	case 4:
		d := time.Duration(1+t.Int("net-sleep", 30)) * time.Second
		time.Sleep(d)
		c.SimNanos += int64(d)
	case 5: // pack the publisher's pool to exactly the block size limit
		r.packBlock()
	}
}

// clientOp: a client hands a transaction to one node, which injects and broadcasts it.
func (r *netRun) clientOp() {
	c := r.c
	t := c.T
	n := r.nodes[t.Int("client-node", len(r.nodes))]
	fat := t.Chance("fat", 1, 5)
	tx, ok := r.w.mkSpend(r.nodes[0].m, fat)
	if !ok {
		return
	}
	r.honestTxn[tx.Hash()] = true
	_, _, err := n.v.InjectForeignTransaction(cTxn(&tx))
	if err == nil {
		_, _ = n.dm.BroadcastTransaction(cTxn(&tx))
	}
	// the publisher's model pool drives later spends; mirror admission there
	if n == r.nodes[0] && err == nil {
		r.nodes[0].m.InjectForeign(&tx, r.nodes[0].m.Cfg.Unconfirmed)
	}
	r.ns.pump()
	c.Kind(4, err == nil)
	c.Logf("client gives txn %s (%d bytes) to n%d -> %v", short(tx.Hash()), tx.Size(), n.id, err)
}

// packBlock adds one transaction whose size brings the total size of the
// publisher's eligible pool to exactly the block size limit (or within 3
// bytes below it), so that maximum-size blocks really occur.
func (r *netRun) packBlock() {
	c := r.c
	pub := r.nodes[0]
	// what is really in the node's pool
	utx, err := pub.v.GetAllUnconfirmedTransactions()
	if err != nil {
		return
	}
	total := uint64(0)
	used := map[model.Hash]bool{}
	for i := range utx {
		mt := mTxn(&utx[i].Transaction)
		if utx[i].IsValid != 1 {
			return // keep it simple: only pack pools of valid transactions
		}
		total += mt.Size()
		for _, in := range mt.In {
			used[in] = true
		}
	}
	limit := uint64(pub.m.Cfg.MaxBlockSize)
	if total+49+97+37 > limit {
		return
	}
	want := limit - total - uint64(c.T.Int("pack-slack", 4)) // 0..3 bytes below the limit
	// size = 49 + 97*a + 37*b  with a inputs, b outputs
	var free []model.Hash
	for _, id := range r.w.ownedUnspents(pub.m) {
		u := pub.m.Unspent[id]
		if !used[id] && u.Addr != r.w.locked.m && u.Coins >= 1000000 {
			free = append(free, id)
		}
	}
	for a := uint64(1); a <= 6 && a <= uint64(len(free)); a++ {
		if want < 49+97*a+37 || (want-49-97*a)%37 != 0 {
			continue
		}
		b := (want - 49 - 97*a) / 37
		var tx model.Txn
		var coins, hours uint64
		headTime := pub.m.Head().Head.Time
		for _, id := range free[:a] {
			u := pub.m.Unspent[id]
			h, ov, inter := model.AccruedHours(u, headTime)
			if ov || inter {
				return
			}
			tx.In = append(tx.In, id)
			coins += u.Coins
			hours += h.Uint64()
		}
		if coins < b*1000 || hours < 4 {
			continue
		}
		keep := hours / 2
		for i := uint64(0); i < b; i++ {
			o := model.Out{Addr: r.w.clients[int(i)%len(r.w.clients)].m, Coins: 1000, Hours: 0}
			if i == b-1 {
				o.Coins = coins - 1000*(b-1)
				o.Hours = keep
			} else if keep > b {
				// distinct outputs: vary the hours
				o.Hours = i / uint64(len(r.w.clients))
				keep -= o.Hours
			}
			tx.Out = append(tx.Out, o)
		}
		if uint64(len(tx.Out)) != b {
			return
		}
		r.w.sign(pub.m, &tx)
		if tx.Size() != want {
			sim.Harnessf("packer built %d bytes, wanted %d", tx.Size(), want)
		}
		r.honestTxn[tx.Hash()] = true
		_, _, err := pub.v.InjectForeignTransaction(cTxn(&tx))
		if err == nil {
			pub.m.InjectForeign(&tx, pub.m.Cfg.Unconfirmed)
			c.Count("probe.pool_packed_to_block_limit")
		}
		c.Logf("packer adds %d-byte txn (pool %d -> %d of limit %d) -> %v", tx.Size(), total, total+tx.Size(), limit, err)
		return
	}
}

// ---- C23: the wire monitor ------------------------------------------------------

func blockWireSize(b *model.Block) uint64 {
	s := uint64(4 + 8 + 8 + 8 + 32 + 32 + 32 + 4 + 65)
	for i := range b.Txns {
		s += b.Txns[i].Size()
	}
	return s
}

func (r *netRun) monitor(from *netNode, l *link, f []byte) {
	c := r.c
	p, b, ok := parseFrame(f)
	if !ok {
		c.Violate("malformed-frame-sent", "frame", "node %d put a malformed frame on the wire", from.id)
		return
	}
	max := from.maxOut
	c.Count("wire." + p)
	if r.prop != "C23" {
		return
	}
	// the length the receiver compares with its limit is the frame's length field: id + body
	if uint64(len(f)-4) > max {
		c.Violate("frame-exceeds-limit", p, "node %d sent a %s frame of %d bytes (id+body) with limit %d", from.id, p, len(f)-4, max)
		return
	}
	switch p {
	case "ANNT":
		if r.annt != nil {
			var m daemon.AnnounceTxnsMessage
			if _, err := m.Decode(b); err != nil {
				c.Violate("malformed-frame-sent", "ANNT", "node %d sent an undecodable ANNT", from.id)
				return
			}
			r.annt[l] = append(r.annt[l], len(m.Transactions))
		}
	case "GIVT":
		want, asked := r.expGivT[l]
		if !asked {
			return
		}
		delete(r.expGivT, l)
		var m daemon.GiveTxnsMessage
		if _, err := m.Decode(b); err != nil {
			c.Violate("malformed-frame-sent", "GIVT", "node %d sent an undecodable GIVT", from.id)
			return
		}
		got := make([]string, len(m.Transactions))
		for i := range m.Transactions {
			got[i] = m.Transactions[i].Hash().Hex()[:8]
		}
		same := len(got) == len(want.fit)
		for i := 0; same && i < len(got); i++ {
			same = got[i] == want.fit[i]
		}
		if !same {
			kind := "fewer"
			if len(got) > len(want.fit) {
				kind = "more"
			} else if len(got) == len(want.fit) {
				kind = "other"
			}
			c.Violate("not-longest-fitting-prefix", "GIVT:"+kind, "node %d answered a request for %d of its pending transactions (sizes %v) with %d transactions %v; the longest prefix fitting %d bytes is %d: %v", from.id, len(want.sizes), want.sizes, len(got), got, max, len(want.fit), want.fit)
			return
		}
		if len(want.fit) < len(want.sizes) {
			c.Count("probe.givt_truncated_by_length")
		}
		if want.exact {
			c.Count("probe.givt_prefix_fills_limit_exactly")
		}
		c.Count("probe.givt_prefix_checked")
	case "GIVB":
		var m daemon.GiveBlocksMessage
		if _, err := m.Decode(b); err != nil {
			c.Violate("malformed-frame-sent", "GIVB", "node %d sent an undecodable GIVB", from.id)
			return
		}
		g, asked := r.lastGetB[l]
		if !asked {
			return
		}
		if len(m.Blocks) > 0 && m.Blocks[0].Head.BkSeq != g.LastBlock+1 {
			return // an unsolicited block broadcast (the publisher's new block)
		}
		delete(r.lastGetB, l)
		// (a reply without blocks is what is left when not even the first block fits)
		// what was requested: blocks after LastBlock, at most min(requested, response cap, 128), as far as the sender's chain goes
		cnt := g.RequestedBlocks
		if cnt > r.ns.knobs.maxGetBlocksResp {
			cnt = r.ns.knobs.maxGetBlocksResp
		}
		if cnt > 128 {
			cnt = 128
		}
		chain := from.m.Chain
		var sizes []uint64
		for seq := g.LastBlock + 1; seq < uint64(len(chain)) && uint64(len(sizes)) < cnt; seq++ {
			sizes = append(sizes, blockWireSize(&chain[seq]))
		}
		// longest prefix with id (4) + count (4) + blocks <= limit
		fit, total := 0, uint64(8)
		for _, s := range sizes {
			if total+s > max {
				break
			}
			total += s
			fit++
		}
		if from.id != 0 && len(from.m.Chain) != int(mustHead(from)+1) {
			return // the follower's shadow model is not in step (blocks arrived outside the model): skip
		}
		if len(m.Blocks) >= 128 {
			c.Count("probe.givb_with_128_or_more_blocks")
		}
		if len(m.Blocks) != fit {
			kind := "fewer"
			if len(m.Blocks) > fit {
				kind = "more"
			}
			c.Violate("not-longest-fitting-prefix", "GIVB:"+kind, "node %d answered GETB(%d,%d) with %d blocks; %d blocks were available within the caps and the longest prefix fitting %d bytes is %d", from.id, g.LastBlock, g.RequestedBlocks, len(m.Blocks), len(sizes), max, fit)
			return
		}
		if fit < len(sizes) {
			c.Count("probe.givb_truncated_by_length")
		}
		if fit == 0 && len(sizes) > 0 {
			c.Count("probe.givb_first_block_does_not_fit")
		}
		c.Count("probe.givb_prefix_checked")
	}
}

func mustHead(n *netNode) uint64 {
	h, _, err := n.v.HeadBkSeq()
	if err != nil {
		sim.Harnessf("HeadBkSeq: %v", err)
	}
	return h
}

// ---- invariants --------------------------------------------------------------------

func (r *netRun) invariants() {
	c := r.c
	// keep follower shadow models in step with what they accepted (needed by the GIVB oracle)
	pub := r.nodes[0]
	for _, n := range r.nodes[1:] {
		h := mustHead(n)
		for uint64(len(n.m.Chain)) <= h {
			seq := uint64(len(n.m.Chain))
			pb, ok := r.pubBlocks[seq]
			if !ok {
				if r.prop == "C10" {
					c.Violate("follower-holds-foreign-block", "not-publishers", "node %d holds block %d which the publisher never made", n.id, seq)
				}
				return
			}
			n.m.Apply(pb)
		}
		if r.prop == "C10" {
			for seq := uint64(1); seq <= h; seq++ {
				sb, err := n.v.GetSignedBlockBySeq(seq)
				if err != nil || sb == nil {
					continue
				}
				mb := mBlock(sb)
				pb := r.pubBlocks[seq]
				same := mb.Head == pb.Head && mb.Sig == pb.Sig && len(mb.Txns) == len(pb.Txns)
				for i := 0; same && i < len(mb.Txns); i++ {
					same = string(mb.Txns[i].Encode()) == string(pb.Txns[i].Encode())
				}
				if !same {
					c.Violate("tampered-block-accepted", "block", "node %d accepted block %d with bytes that differ from the publisher's block", n.id, seq)
					return
				}
			}
		}
	}
	if r.prop == "C10" {
		for _, n := range r.nodes {
			utx, err := n.v.GetAllUnconfirmedTransactions()
			if err != nil {
				continue
			}
			for i := range utx {
				mt := mTxn(&utx[i].Transaction)
				if !r.honestTxn[mt.Hash()] {
					c.Violate("tampered-transaction-accepted", "txn", "node %d pooled transaction %s whose bytes no honest signer produced", n.id, short(mt.Hash()))
					return
				}
				for _, s := range mt.Sigs {
					if !model.SigLowS([65]byte(s)) || s[64] > 3 {
						c.Violate("non-canonical-signature-accepted", "pool", "node %d pooled a transaction with a high-s or recid>=4 signature", n.id)
						return
					}
				}
			}
		}
	}
	c.State(uint64(len(pub.m.Chain)), uint64(len(r.pendingLinks())), uint64(r.tampered))
}

// ---- C10: the Byzantine relay --------------------------------------------------------

// tamper rewrites a frame carrying signed objects the way a third party can
// (no keys).  It returns nil when the frame carries nothing to tamper with.
func (r *netRun) tamper(f []byte) ([]byte, string) {
	t := r.c.T
	p, b, ok := parseFrame(f)
	if !ok {
		return nil, ""
	}
	switch p {
	case "GIVT":
		var m daemon.GiveTxnsMessage
		if _, err := m.Decode(b); err != nil || len(m.Transactions) == 0 {
			return nil, ""
		}
		i := t.Int("tamper-txn-i", len(m.Transactions))
		mt := mTxn(&m.Transactions[i])
		what := r.tamperTxn(&mt)
		if what == "append-bytes" {
			nb := append(append([]byte{}, b...), t.Bytes("tamper-append", 1+t.Int("tamper-append-len", 4))...)
			return frame("GIVT", nb), what
		}
		m.Transactions[i] = cTxn(&mt)
		return frame("GIVT", body(&m)), what
	case "GIVB":
		var m daemon.GiveBlocksMessage
		if _, err := m.Decode(b); err != nil || len(m.Blocks) == 0 {
			return nil, ""
		}
		i := t.Int("tamper-block-i", len(m.Blocks))
		mb := mBlock(&m.Blocks[i])
		what := ""
		switch t.Pick("tamper-block", 3, 2, 2, 2, 1) {
		case 0:
			if len(mb.Txns) > 0 {
				j := t.Int("tamper-block-txn", len(mb.Txns))
				what = "block-txn-" + r.tamperTxn(&mb.Txns[j])
			}
		case 1:
			mb.Sig = model.Sig(model.NegateS([65]byte(mb.Sig)))
			what = "block-sig-negate-s"
		case 2:
			mb.Sig[64] = []byte{mb.Sig[64] + 4, mb.Sig[64] ^ 1, mb.Sig[64] | 2, mb.Sig[64] ^ 3}[t.Int("tamper-recid", 4)]
			what = "block-sig-recid"
		case 3:
			hb := mb.Head.Encode()
			_ = hb
			switch t.Int("tamper-header-field", 4) {
			case 0:
				mb.Head.Fee ^= 1 << t.Draw("bit", 64)
			case 1:
				mb.Head.Time ^= 1 << t.Draw("bit", 20)
			case 2:
				mb.Head.UxHash[t.Int("byte", 32)] ^= 1 << t.Draw("bit", 8)
			case 3:
				mb.Head.Version ^= 1 << t.Draw("bit", 32)
			}
			what = "block-header-bit"
		case 4:
			if len(mb.Txns) > 1 {
				mb.Txns[0], mb.Txns[1] = mb.Txns[1], mb.Txns[0]
				what = "block-reorder-txns"
			}
		}
		if what == "" {
			return nil, ""
		}
		m.Blocks[i] = cBlock(&mb)
		return frame("GIVB", body(&m)), what
	}
	return nil, ""
}

func (r *netRun) tamperTxn(mt *model.Txn) string {
	t := r.c.T
	if len(mt.Sigs) == 0 || len(mt.Out) == 0 || len(mt.In) == 0 {
		return "none"
	}
	switch t.Pick("tamper-txn", 3, 2, 2, 2, 2, 1, 1, 1) {
	case 0:
		i := t.Int("sig-i", len(mt.Sigs))
		mt.Sigs[i] = model.Sig(model.NegateS([65]byte(mt.Sigs[i])))
		return "negate-s"
	case 1:
		i := t.Int("sig-i", len(mt.Sigs))
		mt.Sigs[i][64] = []byte{mt.Sigs[i][64] + 4, mt.Sigs[i][64] ^ 1, mt.Sigs[i][64] | 0x80, mt.Sigs[i][64] | 2, mt.Sigs[i][64] ^ 3}[t.Int("recid-kind", 5)]
		return "recid"
	case 2:
		i := t.Int("out-i", len(mt.Out))
		switch t.Int("out-field", 3) {
		case 0:
			mt.Out[i].Coins ^= 1 << t.Draw("bit", 40)
		case 1:
			mt.Out[i].Hours ^= 1 << t.Draw("bit", 40)
		case 2:
			mt.Out[i].Addr[1+t.Int("abyte", 20)] ^= 1 << t.Draw("bit", 8)
		}
		return "flip-output-bit"
	case 3:
		i := t.Int("sig-i", len(mt.Sigs))
		mt.Sigs[i][t.Int("sig-byte", 64)] ^= 1 << t.Draw("bit", 8)
		return "flip-sig-bit"
	case 4:
		if len(mt.In) > 1 {
			mt.In[0], mt.In[1] = mt.In[1], mt.In[0]
			mt.Sigs[0], mt.Sigs[1] = mt.Sigs[1], mt.Sigs[0]
			mt.Inner = mt.InnerHash() // a third party can recompute the (unsigned) inner hash field
			return "reorder-inputs"
		}
		mt.Inner[t.Int("inner-byte", 32)] ^= 1
		return "flip-inner-hash"
	case 5:
		// the length prefix lies outside the inner hash: one more, one less, zero, one, all ones, one bit flipped
		mt.Length = []uint32{mt.Length + 1, mt.Length - 1, 0, 1, 0xffffffff, mt.Length ^ (1 << t.Draw("len-bit", 32))}[t.Pick("length-kind", 2, 1, 2, 1, 1, 1)]
		return "length-field"
	case 6:
		return "append-bytes"
	case 7:
		// add the curve order to r where it still fits in 32 bytes: a different encoding of the same r mod n
		i := t.Int("sig-i", len(mt.Sigs))
		mt.Sigs[i][0] |= 0x80
		return "r-high-bit"
	}
	return "none"
}

var _ = errors.New
var _ = gnet.ErrMsgExceedsMaxLen
var _ = strings.Join

type expGivT struct {
	sizes []uint64 // sizes of the requested transactions the node has, in request order
	fit   []string // short hashes of the longest prefix that fits the node's limit
	exact bool     // that prefix fills the limit to the byte
}

// askTxns: the scripted peer asks a node for transactions of its pool (and some nobody has).  The reply must be the
// longest prefix, in request order, of the ones the node has that fits its outgoing limit.  When some subset of the
// pool adds up to the limit exactly, it is asked for first: the boundary where "fits" and "does not fit" meet.
func (r *netRun) askTxns() {
	c := r.c
	t := c.T
	cp, n := r.hashPeer, r.hashPeerNode
	if cp == nil || cp.l.dead {
		return
	}
	utxs, err := n.v.GetAllUnconfirmedTransactions()
	if err != nil {
		sim.Harnessf("GetAllUnconfirmedTransactions: %v", err)
	}
	if len(utxs) == 0 {
		return
	}
	type ptx struct {
		h    cipher.SHA256
		size uint64
	}
	pool := make([]ptx, 0, len(utxs))
	for i := range utxs {
		mt := mTxn(&utxs[i].Transaction)
		pool = append(pool, ptx{utxs[i].Transaction.Hash(), mt.Size()})
	}
	sort.Slice(pool, func(i, j int) bool { return pool[i].h.Hex() < pool[j].h.Hex() })
	// shuffle by the tape
	for i := len(pool) - 1; i > 0; i-- {
		j := t.Int("askt-shuffle", i+1)
		pool[i], pool[j] = pool[j], pool[i]
	}
	if len(pool) > 200 {
		pool = pool[:200]
	}
	max := n.maxOut
	// subset of the pool whose sizes add up to max-8 exactly (id + count + transactions), if there is one
	exact := false
	if max > 8 && max-8 < 1<<16 {
		target := int(max - 8)
		from := make([]int, target+1) // from[s] = index+1 of the last transaction used to reach sum s
		reach := make([]bool, target+1)
		reach[0] = true
		for i, p := range pool {
			sz := int(p.size)
			for s2 := target; s2 >= sz; s2-- {
				if !reach[s2] && reach[s2-sz] && from[s2-sz] != i+1 {
					reach[s2] = true
					from[s2] = i + 1
				}
			}
		}
		if reach[target] && t.Chance("askt-exact", 3, 4) {
			used := map[int]bool{}
			for s2 := target; s2 > 0; {
				i := from[s2] - 1
				used[i] = true
				s2 -= int(pool[i].size)
			}
			var first, rest []ptx
			for i, p := range pool {
				if used[i] {
					first = append(first, p)
				} else {
					rest = append(rest, p)
				}
			}
			pool = append(first, rest...)
			exact = true
		}
	}
	var hs []cipher.SHA256
	var exp expGivT
	total := uint64(8)
	stopped := false
	for _, p := range pool {
		if len(hs) >= 250 {
			break
		}
		if t.Chance("askt-unknown", 1, 8) {
			var u cipher.SHA256
			copy(u[:], t.Bytes("hash", 32))
			u[0] |= 1
			hs = append(hs, u)
		}
		hs = append(hs, p.h)
		exp.sizes = append(exp.sizes, p.size)
		if !stopped && total+p.size <= max {
			total += p.size
			exp.fit = append(exp.fit, p.h.Hex()[:8])
		} else {
			stopped = true
		}
	}
	exp.exact = exact && total == max && stopped
	r.expGivT[cp.l] = exp
	m := daemon.NewGetTxnsMessage(hs, 1<<20)
	before := len(cp.received)
	r.ns.deliver(cp.l, frame("GETT", body(m)), nil)
	r.ns.pump()
	c.Count("fault.transactions_requested_by_scripted_peer")
	c.Kind(12, exact)
	c.Logf("scripted peer asks n%d for %d transactions (%d of its pool, limit %d, exact-fit subset %v)", n.id, len(hs), len(exp.sizes), max, exact)
	if c.Failed() {
		return
	}
	if _, still := r.expGivT[cp.l]; still && !cp.l.dead {
		delete(r.expGivT, cp.l)
		// no GIVT at all: only right when nothing fits
		seen := false
		for _, f := range cp.received[before:] {
			if p, _, ok := parseFrame(f); ok && p == "GIVT" {
				seen = true
			}
		}
		if !seen && len(exp.fit) > 0 {
			c.Violate("not-longest-fitting-prefix", "GIVT:none", "node %d did not answer a request for %d of its pending transactions although %d of them fit %d bytes", n.id, len(exp.sizes), len(exp.fit), max)
		}
	}
}

// askBlocks: the scripted peer asks a node for blocks after an arbitrary height (what a peer that is behind does).
func (r *netRun) askBlocks() {
	c := r.c
	t := c.T
	cp, n := r.hashPeer, r.hashPeerNode
	if cp == nil || cp.l.dead {
		return
	}
	head := mustHead(n)
	last := uint64(t.Int("askb-last", int(head)+1))
	cnt := uint64(1 + t.Int("askb-count", 30))
	g := daemon.NewGetBlocksMessage(last, cnt)
	r.lastGetB[cp.l] = *g
	r.ns.deliver(cp.l, frame("GETB", body(g)), nil)
	r.ns.pump()
	c.Count("fault.blocks_requested_by_scripted_peer")
	c.Kind(13, true)
	c.Logf("scripted peer asks n%d (head %d) for %d blocks after %d", n.id, head, cnt, last)
}
