package e1

import (
	"crypto/sha256"
	"encoding/hex"
	"fmt"
	"io"
	"log"
	"path/filepath"

	"github.com/boltdb/bolt"

	"github.com/skycoin/skycoin/src/cipher"
	"github.com/skycoin/skycoin/src/params"
	"github.com/skycoin/skycoin/src/util/logging"
	"github.com/skycoin/skycoin/src/visor"
	"github.com/skycoin/skycoin/src/visor/dbutil"
	"github.com/skycoin/skycoin/src/wallet"

	"verifsim/model"
	"verifsim/sim"
)

func init() {
	logging.Disable()
	log.SetOutput(io.Discard)
}

// key is a key pair with its address in both representations.
type key struct {
	pub  cipher.PubKey
	sec  cipher.SecKey
	addr cipher.Address
	m    model.Addr
	name string
}

func newKey(seed uint64, name string) key {
	pub, sec := cipher.MustGenerateDeterministicKeyPair([]byte(fmt.Sprintf("verif-%d-%s", seed, name)))
	a := cipher.AddressFromPubKey(pub)
	return key{pub, sec, a, mAddr(a), name}
}

// world is the per-run universe: keys, parameters, nodes.
type world struct {
	oversize      bool            // the next fat transaction is made larger than the transaction size limits
	restoreParams func()          // undoes changes to package-level parameters (params.UserVerifyTxn) made for this run
	wltServ       *wallet.Service // nil except in the API engine
	c             *sim.Ctx
	pubKey        key // block publisher
	genKey        key // owner of the genesis output
	forger        key // somebody else's key
	clients       []key
	locked        key // a locked distribution address
	unlocked      key // an unlocked distribution address
	byAddr        map[model.Addr]*key

	genCoins uint64
	genTime  uint64
	genSig   cipher.Sig
	mcfg     model.Config
	dist     params.Distribution

	nodes []*node
}

// node is one real visor on its own bolt file, with the model that shadows it.
type node struct {
	w         *world
	id        int
	publisher bool
	path      string
	db        *dbutil.DB
	v         *visor.Visor
	m         *model.Ledger
	cfg       visor.Config
	crashed   bool
}

func (w *world) visorConfig(publisher bool) visor.Config {
	cfg := visor.NewConfig()
	cfg.IsBlockPublisher = publisher
	cfg.Arbitrating = publisher
	cfg.BlockchainPubkey = w.pubKey.pub
	if publisher {
		cfg.BlockchainSeckey = w.pubKey.sec
	}
	cfg.GenesisAddress = w.genKey.addr
	cfg.GenesisSignature = w.genSig
	cfg.GenesisTimestamp = w.genTime
	cfg.GenesisCoinVolume = w.genCoins
	cfg.Distribution = w.dist
	cfg.UnconfirmedVerifyTxn = params.VerifyTxn{BurnFactor: w.mcfg.Unconfirmed.BurnFactor, MaxTransactionSize: w.mcfg.Unconfirmed.MaxTxnSize, MaxDropletPrecision: w.mcfg.Unconfirmed.MaxDecimals}
	cfg.CreateBlockVerifyTxn = params.VerifyTxn{BurnFactor: w.mcfg.CreateBlock.BurnFactor, MaxTransactionSize: w.mcfg.CreateBlock.MaxTxnSize, MaxDropletPrecision: w.mcfg.CreateBlock.MaxDecimals}
	cfg.MaxBlockTransactionsSize = w.mcfg.MaxBlockSize
	return cfg
}

func openBolt(path string) (*dbutil.DB, error) {
	db, err := bolt.Open(path, 0o600, &bolt.Options{Timeout: 0, InitialMmapSize: 1 << 26})
	if err != nil {
		return nil, err
	}
	// The scratch directory is a tmpfs; fsync adds nothing to the logical
	// behaviour under test (the crash engine E4 models durability itself).
	db.NoSync = true
	return dbutil.WrapDB(db), nil
}

func (w *world) newNode(id int, publisher bool) *node {
	n := &node{w: w, id: id, publisher: publisher, path: filepath.Join(w.c.Dir, fmt.Sprintf("node%d.db", id))}
	n.cfg = w.visorConfig(publisher)
	if err := n.start(); err != nil {
		sim.Harnessf("node %d failed to start on a fresh database: %v", id, err)
	}
	n.m = model.NewLedger(w.mcfg, model.Sig(w.genSig))
	return n
}

// start runs the start-up sequence OpenDB -> visor.New -> Init.
func (n *node) start() error {
	db, err := openBolt(n.path)
	if err != nil {
		return fmt.Errorf("open: %w", err)
	}
	v, err := visor.New(n.cfg, db, n.w.wltServ)
	if err != nil {
		db.Close()
		return fmt.Errorf("visor.New: %w", err)
	}
	if err := v.Init(); err != nil {
		db.Close()
		return fmt.Errorf("visor.Init: %w", err)
	}
	n.db, n.v, n.crashed = db, v, false
	return nil
}

func (n *node) stop() {
	if n.db != nil {
		n.db.Close()
		n.db, n.v = nil, nil
	}
}

// dbFingerprint hashes the logical content of every bucket.
func (n *node) dbFingerprint(skip map[string]bool) string {
	h := sha256.New()
	err := n.db.View("verif fingerprint", func(tx *dbutil.Tx) error {
		return tx.ForEach(func(name []byte, b *bolt.Bucket) error {
			if skip[string(name)] {
				return nil
			}
			h.Write([]byte{0xff})
			h.Write(name)
			return b.ForEach(func(k, v []byte) error {
				h.Write([]byte{0xfe, byte(len(k)), byte(len(k) >> 8)})
				h.Write(k)
				h.Write([]byte{byte(len(v)), byte(len(v) >> 8), byte(len(v) >> 16)})
				h.Write(v)
				return nil
			})
		})
	})
	if err != nil {
		sim.Harnessf("fingerprint: %v", err)
	}
	return hex.EncodeToString(h.Sum(nil)[:12])
}

func (w *world) closeAll() {
	for _, n := range w.nodes {
		n.stop()
	}
	if w.restoreParams != nil {
		w.restoreParams()
		w.restoreParams = nil
	}
}
