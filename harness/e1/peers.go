package e1

import (
	"encoding/binary"
	"fmt"
	"sort"
	"strings"
	"time"

	"github.com/skycoin/skycoin/src/daemon"
	"github.com/skycoin/skycoin/src/daemon/gnet"

	"verifsim/model"
	"verifsim/sim"
)

// One real node (visor + bolt + daemon handlers + gnet pool, stepped) and a
// handful of scripted peers on a few IPs and ports: the scenario behind C24
// (bookkeeping), C25 (introduction gate) and C22 (framing).

type peerSim struct {
	c       *sim.Ctx
	w       *world
	ns      *netSim
	n       *netNode
	chain   []model.Block
	peers   []*chaosPeer                // all peers ever attached
	seen    map[*chaosPeer]int          // frames already looked at
	intro   map[*chaosPeer]bool         // we sent an introduction the rules accept
	pend    map[string]bool             // outgoing attempts not yet resolved
	prev    map[string]daemon.VerifConn // previous snapshot by addr
	reasons map[*link]error
}

var peerIPs = []string{"10.0.1.1", "10.0.1.2", "10.0.1.3"}
var peerPorts = []uint16{7001, 7002, 7003}

func newPeerSim(c *sim.Ctx, blocks int) *peerSim { return newPeerSimOpts(c, blocks, nil) }

func newPeerSimOpts(c *sim.Ctx, blocks int, tweak func(ns *netSim)) *peerSim {
	w := newWorld(c, 0, worldOpts{hugeWeight: 0})
	s := &peerSim{c: c, w: w, seen: map[*chaosPeer]int{}, intro: map[*chaosPeer]bool{}, pend: map[string]bool{}, prev: map[string]daemon.VerifConn{}, reasons: map[*link]error{}}
	if blocks > 0 {
		s.chain = buildChain(c, w, blocks)
	}
	s.ns = newNetSim(c, w)
	s.ns.drawKnobs(false)
	s.ns.knobs.ipCountsMax = 2 + c.T.Int("knob-ipcounts", 2)
	if tweak != nil {
		tweak(s.ns)
	}
	s.n = s.ns.addDaemon(w.nodes[0], "10.0.0.1", 6000, 0xAAAA)
	s.ns.onDisconnect = func(n *netNode, l *link, reason error) { s.reasons[l] = reason }
	return s
}

func (s *peerSim) close() {
	s.ns.shutdown()
	s.w.closeAll()
}

func (s *peerSim) livePeers() []*chaosPeer {
	var out []*chaosPeer
	for _, p := range s.peers {
		if !p.l.dead {
			out = append(out, p)
		}
	}
	return out
}

func (s *peerSim) pickAddr() string {
	t := s.c.T
	return fmt.Sprintf("%s:%d", peerIPs[t.Int("peer-ip", len(peerIPs))], peerPorts[t.Int("peer-port", len(peerPorts))])
}

// connectIn: a peer connects to the node.
func (s *peerSim) connectIn(addr string) *chaosPeer {
	cp, err := s.ns.newChaos(s.n, "peer@"+addr, addr)
	s.ns.pump()
	s.c.Logf("incoming connection from %s -> %v", addr, err)
	if err != nil {
		s.c.Count("probe.connect_refused_by_pool")
		return nil
	}
	s.peers = append(s.peers, cp)
	return cp
}

// ---- introductions -------------------------------------------------------------

type introSpec struct {
	mirror     uint32
	listenPort uint16
	version    int32
	extra      []byte
	valid      bool   // by the independent predicate below
	why        string // first failing condition
}

var userAgents = []struct {
	s     string
	valid bool
}{
	{"skycoin:0.27.0", true}, {"skycoin:0.25.1(some remark)", true}, {"other-coin_x:1.2.3-rc1", true},
	{"", false}, {"skycoin", false}, {"skycoin:abc", false}, {"sky coin:1.0.0", false}, {strings.Repeat("a", 300) + ":1.0.0", false},
	// the field holds at most 256 bytes on the wire: exactly 256 well-formed bytes, one more, and 300 bytes of which
	// only 250 survive the removal of forbidden characters (what remains would be well-formed)
	{"skycoin:1.0.0(" + strings.Repeat("a", 241) + ")", true}, {"skycoin:1.0.0(" + strings.Repeat("a", 242) + ")", false},
	{"skycoin:0.26.0(" + strings.Repeat("a", 234) + strings.Repeat("<", 50) + ")", false},
}

// drawIntro generates an introduction and decides, from the bytes alone and
// the statement of C25, whether it must be accepted.
func (s *peerSim) drawIntro(forceValid bool) introSpec {
	t := s.c.T
	in := introSpec{version: 2, valid: true}
	in.mirror = []uint32{0, 0xB1, 0xB2, s.n.mirror}[t.Pick("intro-mirror", 2, 4, 3, 1)]
	in.listenPort = []uint16{0, 7001, 7002, 6000}[t.Pick("intro-listen-port", 2, 3, 3, 1)]
	fail := func(why string) {
		if in.valid {
			in.valid, in.why = false, why
		}
	}
	if forceValid {
		if in.mirror == s.n.mirror {
			in.mirror = 0xB1
		}
	}
	if in.mirror == s.n.mirror {
		fail("self")
	}
	if !forceValid {
		in.version = []int32{2, 3, 1, 0, -5, -2147483648, -2147483647, -2147483646, 2147483647, -1}[t.Pick("intro-version", 6, 1, 1, 1, 1, 1, 1, 1, 1, 1)]
	}
	if in.version < 2 {
		fail("version")
	}
	// extra: pubkey | burn u32, maxsize u32, precision u8 | user agent (u32 length + bytes) | optional genesis hash
	pub := s.w.pubKey.pub[:]
	if !forceValid && t.Chance("intro-wrong-pubkey", 1, 8) {
		pub = s.w.forger.pub[:]
		fail("pubkey")
	}
	burn, maxSize, prec := uint32(10), uint32(32768), byte(3)
	if !forceValid {
		switch t.Pick("intro-params", 8, 1, 1, 1, 1) {
		case 1:
			burn = uint32(t.Draw("intro-burn", 2)) // 0 or 1: below the minimum of 2
			fail("burn factor")
		case 2:
			maxSize = uint32(t.Draw("intro-maxsize", 1024))
			fail("max transaction size")
		case 3:
			prec = 7 + byte(t.Draw("intro-prec", 200))
			fail("droplet precision")
		case 4:
			burn, maxSize, prec = 2, 1024, 6 // the legal minima / maximum
		}
	}
	ua := userAgents[0]
	if !forceValid {
		ua = userAgents[t.Pick("intro-ua", 6, 2, 2, 1, 1, 1, 1, 1, 1, 1, 2)]
	}
	if !ua.valid {
		fail("user agent")
	}
	ex := append([]byte{}, pub...)
	ex = binary.LittleEndian.AppendUint32(ex, burn)
	ex = binary.LittleEndian.AppendUint32(ex, maxSize)
	ex = append(ex, prec)
	ex = binary.LittleEndian.AppendUint32(ex, uint32(len(ua.s)))
	ex = append(ex, ua.s...)
	tail := 3 // genesis hash present
	if forceValid {
		// both legal forms of a conforming introduction: with the genesis hash (optionally followed by bytes a
		// later protocol version may define) and, as peers before v0.26 send it, ending right after the user agent
		tail = []int{3, 0, 5}[t.Pick("intro-tail-valid", 3, 1, 1)]
	}
	if !forceValid {
		tail = t.Pick("intro-tail", 3, 3, 1, 1, 1, 1, 1)
	}
	switch tail {
	case 0: // nothing after the user agent
	case 3, 1:
		ex = append(ex, s.ns.genesisHash[:]...)
	case 2: // some but fewer than 32 bytes
		ex = append(ex, make([]byte, 1+t.Int("intro-short-tail", 31))...)
		fail("short genesis hash")
	case 4: // truncated somewhere inside the mandatory part
		cut := t.Int("intro-cut", len(ex))
		ex = ex[:cut]
		in.valid, in.why = false, "truncated extra"
		if in.mirror != s.n.mirror && in.version >= 2 && cut == 0 {
			in.why = "no extra"
		}
	case 5: // more than a genesis hash
		ex = append(ex, s.ns.genesisHash[:]...)
		ex = append(ex, t.Bytes("intro-extra-tail", 1+t.Int("intro-extra-tail-len", 40))...)
	case 6: // user agent length prefix lies
		off := 33 + 9
		if len(ex) >= off+4 {
			binary.LittleEndian.PutUint32(ex[off:], uint32(len(ua.s))+1+uint32(t.Draw("intro-ua-len-lie", 1000)))
			in.valid, in.why = false, "user agent length"
			// a lie small enough to swallow part of the hash can still parse; keep the verdict open below
			if int(binary.LittleEndian.Uint32(ex[off:])) <= len(ex)-off-4 {
				in.why = "undecided"
			}
		}
	}
	in.extra = ex
	return in
}

func (s *peerSim) introBytes(in introSpec) []byte {
	m := &daemon.IntroductionMessage{Mirror: in.mirror, ListenPort: in.listenPort, ProtocolVersion: in.version, Extra: in.extra}
	return frame("INTR", body(m))
}

// otherMessage builds one well-formed non-introduction message.
func (s *peerSim) otherMessage() (string, []byte) {
	t := s.c.T
	switch t.Pick("other-msg", 2, 2, 1, 1, 1, 1, 1, 1, 1, 1) {
	case 0:
		return "PING", frame("PING", nil)
	case 1:
		return "GETB", frame("GETB", body(daemon.NewGetBlocksMessage(uint64(t.Int("getb-last", len(s.chain)+1)), 1+uint64(t.Int("getb-n", 5)))))
	case 2:
		return "ANNB", frame("ANNB", body(daemon.NewAnnounceBlocksMessage(uint64(len(s.chain)+1+t.Int("annb", 5)))))
	case 3:
		return "GETP", frame("GETP", nil)
	case 4:
		return "PONG", frame("PONG", nil)
	case 5:
		return "GETT", frame("GETT", body(&daemon.GetTxnsMessage{}))
	case 6:
		return "ANNT", frame("ANNT", body(&daemon.AnnounceTxnsMessage{}))
	case 7:
		return "GIVT", frame("GIVT", body(&daemon.GiveTxnsMessage{}))
	case 8:
		return "GIVB", frame("GIVB", body(&daemon.GiveBlocksMessage{}))
	}
	return "GIVP", frame("GIVP", body(&daemon.GivePeersMessage{Peers: []daemon.IPAddr{{IP: 0x0A000209, Port: 7009}}}))
}

func (s *peerSim) repliesSince(p *chaosPeer, from int) []string {
	var out []string
	for _, f := range p.received[from:] {
		if pre, _, ok := parseFrame(f); ok {
			out = append(out, pre)
		} else {
			out = append(out, "?")
		}
	}
	return out
}

// ---- C25 ------------------------------------------------------------------------

func runIntroGate(c *sim.Ctx) {
	t := c.T
	blocks := 1 + t.Int("gate-blocks", 3)
	// in half of the runs two of the peer addresses are the network's configured default (trusted) peers, and the
	// node also opens connections itself: the rules for what a connection may say before it has introduced itself
	// do not depend on who opened it or on how much the other side is trusted
	var defaults []string
	if t.Bool("gate-default-peers") {
		defaults = []string{fmt.Sprintf("%s:%d", peerIPs[0], peerPorts[0]), fmt.Sprintf("%s:%d", peerIPs[1], peerPorts[1])}
	}
	s := newPeerSimOpts(c, blocks, func(ns *netSim) { ns.defaultConns = defaults })
	defer s.close()
	steps := t.Range("gate-steps", 6, 40)
	c.Sample = append(c.Sample, fmt.Sprintf("one node, scripted peers, %d events", steps))
	for c.Step = 1; c.Step <= steps && !c.Failed(); c.Step++ {
		live := s.livePeers()
		if len(live) == 0 || t.Chance("new-peer", 1, 4) {
			addr := s.pickAddr()
			if len(defaults) > 0 && t.Bool("gate-pick-default") {
				addr = defaults[t.Int("gate-default-i", len(defaults))]
			}
			if t.Chance("gate-outgoing", 1, 3) {
				// the node dials the address itself
				busy := false
				for _, q := range live {
					busy = busy || q.addr == addr
				}
				if !busy && s.n.dm.VerifPending(addr) == nil {
					l, err := s.ns.attach(s.n, addr, true)
					cp := &chaosPeer{name: "out@" + addr, addr: addr, l: l}
					l.chaos = cp
					s.ns.pump()
					c.Logf("outgoing connection to %s established -> %v", addr, err)
					if err == nil {
						s.peers = append(s.peers, cp)
						c.Count("probe.outgoing_connection_in_gate_run")
					}
				}
				continue
			}
			s.connectIn(addr)
			continue
		}
		if t.Chance("gate-time-passes", 1, 5) {
			// a connection may sit there for a while before it says anything (the node only drops silent
			// connections when its own housekeeping tick runs, which these runs never fire)
			d := time.Duration(1+t.Int("gate-sleep", 25)) * time.Second
			time.Sleep(d)
			c.SimNanos += int64(d)
			c.Count("fault.silent_connection_ages")
			c.Logf("+%v", d)
			continue
		}
		p := live[t.Int("peer", len(live))]
		before := len(p.received)
		if t.Chance("send-intro", 1, 2) {
			in := s.drawIntro(false)
			wasIntroduced := s.intro[p]
			// another live introduced peer with the same IP and mirror?
			dupMirror := false
			for _, q := range live {
				if q != p && s.intro[q] && strings.Split(q.addr, ":")[0] == strings.Split(p.addr, ":")[0] && s.introMirror(q) == in.mirror {
					dupMirror = true
				}
			}
			s.ns.deliver(p.l, s.introBytes(in), nil)
			s.ns.pump()
			snap := s.n.dm.VerifConnections()
			state := stateOf(snap, p.addr)
			c.Kind(1, state == daemon.ConnectionStateIntroduced)
			c.Logf("peer %s sends intro mirror=%x port=%d version=%d extra=%dB -> state=%q dead=%v (rules: valid=%v %s)", p.addr, in.mirror, in.listenPort, in.version, len(in.extra), state, p.l.dead, in.valid, in.why)
			c.Count("intro." + map[bool]string{true: "valid", false: "invalid:" + in.why}[in.valid])
			if in.why == "undecided" {
				c.Undecided++
				if state == daemon.ConnectionStateIntroduced {
					s.intro[p] = true
					s.setMirror(p, in.mirror)
				}
				continue
			}
			switch {
			case wasIntroduced:
				// a second introduction on an introduced connection must not change anything for the worse
				if !p.l.dead && state != daemon.ConnectionStateIntroduced {
					c.Violate("intro-state-regressed", "second-intro", "an introduced connection left the introduced state after another introduction")
				}
			case in.valid && !dupMirror:
				if state != daemon.ConnectionStateIntroduced {
					// The statement gives necessary conditions only ("becomes introduced only if"):
					// refusing an introduction that meets them (peer list full, no listen port, ...) is
					// not a violation.  Counted so that the evidence shows how often it happens.
					c.Count("probe.conforming_intro_not_introduced")
				} else {
					s.intro[p] = true
					s.setMirror(p, in.mirror)
				}
			case in.valid && dupMirror:
				if state == daemon.ConnectionStateIntroduced {
					c.Violate("duplicate-ip-mirror-introduced", "dup-mirror", "two introduced connections share IP and mirror %x", in.mirror)
				}
			default:
				if state == daemon.ConnectionStateIntroduced {
					c.Violate("invalid-intro-accepted", in.why, "connection %s became introduced by an introduction that violates: %s", p.addr, in.why)
				} else if !p.l.dead {
					// not introduced and still connected: the statement does not demand a disconnect here
					c.Count("probe.nonconforming_intro_left_connected")
				} else {
					c.Count("probe.nonconforming_intro_disconnected")
				}
			}
			continue
		}
		kind, f := s.otherMessage()
		introduced := s.intro[p]
		s.ns.deliver(p.l, f, nil)
		s.ns.pump()
		replies := s.repliesSince(p, before)
		c.Kind(2, !p.l.dead)
		c.Logf("peer %s (introduced=%v) sends %s -> replies %v dead=%v", p.addr, introduced, kind, replies, p.l.dead)
		if introduced {
			continue
		}
		switch kind {
		case "DISC", "GIVP":
			// allowed before the introduction
		default:
			c.Count("probe.gated_message_before_intro")
			if !p.l.dead {
				c.Violate("no-disconnect-before-intro", kind, "a %s message before any introduction did not disconnect %s", kind, p.addr)
				break
			}
			for _, r := range replies {
				if r == "GIVB" || r == "PONG" || r == "GETB" || r == "GETT" || r == "GIVT" || r == "ANNT" || (r == "GIVP" && kind == "GETP") {
					c.Violate("gated-message-processed", kind+"->"+r, "a %s message from a not-yet-introduced peer was processed (reply %s)", kind, r)
				}
			}
		}
	}
}

func stateOf(s daemon.VerifConnSnapshot, addr string) daemon.ConnectionState {
	for _, c := range s.Conns {
		if c.Addr == addr {
			return c.State
		}
	}
	return ""
}

func (s *peerSim) pexFull() bool { return s.n.dm.VerifPex().IsFull() }

var peerMirror = map[*chaosPeer]uint32{}

func (s *peerSim) setMirror(p *chaosPeer, m uint32) { peerMirror[p] = m }
func (s *peerSim) introMirror(p *chaosPeer) uint32  { return peerMirror[p] }

// ---- C24 ------------------------------------------------------------------------

func runBookkeeping(c *sim.Ctx) {
	if c.T.Chance("book-direct", 1, 3) {
		// one third of the runs offer the bookkeeping object alone arbitrary event sequences (bookdirect.go)
		c.Count("mode.direct")
		runBookkeepingDirect(c)
		return
	}
	c.Count("mode.network")
	s := newPeerSim(c, 0)
	defer s.close()
	t := c.T
	steps := t.Range("book-steps", 8, 60)
	c.Sample = append(c.Sample, fmt.Sprintf("one node, peers on %d IPs x %d ports, %d connection events", len(peerIPs), len(peerPorts), steps))
	for c.Step = 1; c.Step <= steps && !c.Failed(); c.Step++ {
		live := s.livePeers()
		switch t.Pick("book-op", 5, 4, 6, 3, 4, 2, 2) {
		case 0:
			addr := s.pickAddr()
			if s.pend[addr] {
				// an incoming connection from exactly the address we are dialling: the statement's
				// event vocabulary has no such merged event; stay out of it
				continue
			}
			s.connectIn(addr)
			c.Kind(1, true)
		case 1: // outgoing attempt
			addr := s.pickAddr()
			err := s.n.dm.VerifPending(addr)
			c.Logf("outgoing attempt to %s -> %v", addr, err)
			c.Kind(2, err == nil)
			if err == nil {
				s.pend[addr] = true
			}
		case 2: // resolve a pending attempt
			if len(s.pend) == 0 {
				continue
			}
			addrs := make([]string, 0, len(s.pend))
			for a := range s.pend {
				addrs = append(addrs, a)
			}
			sort.Strings(addrs)
			addr := addrs[t.Int("pending", len(addrs))]
			delete(s.pend, addr)
			if t.Chance("connect-fails", 1, 3) {
				// the dial itself fails, or the pool refuses the new connection on its own account
				ferr := []error{fmt.Errorf("dial tcp %s: connect: connection refused", addr), gnet.ErrMaxOutgoingConnectionsReached,
					gnet.ErrMaxOutgoingDefaultConnectionsReached, gnet.ErrConnectionExists, gnet.ErrConnectionPoolClosed,
					fmt.Errorf("dial tcp %s: i/o timeout", addr)}[t.Pick("connect-failure-kind", 4, 2, 1, 1, 1, 1)]
				s.n.dm.VerifConnectFailure(addr, ferr)
				s.ns.pump()
				c.Count("fault.connect_failure")
				c.Logf("outgoing attempt to %s failed", addr)
			} else {
				l, err := s.ns.attach(s.n, addr, true)
				cp := &chaosPeer{name: "out@" + addr, addr: addr, l: l}
				l.chaos = cp
				s.ns.pump()
				c.Logf("outgoing connection to %s established -> %v", addr, err)
				if err == nil {
					s.peers = append(s.peers, cp)
				}
			}
			c.Kind(3, true)
		case 3: // introduction
			if len(live) == 0 {
				continue
			}
			p := live[t.Int("peer", len(live))]
			in := s.drawIntro(t.Chance("book-valid-intro", 3, 4))
			s.ns.deliver(p.l, s.introBytes(in), nil)
			s.ns.pump()
			c.Kind(4, !p.l.dead)
			c.Logf("peer %s sends intro mirror=%x port=%d valid=%v -> dead=%v", p.addr, in.mirror, in.listenPort, in.valid, p.l.dead)
		case 4: // disconnect by the peer
			if len(live) == 0 {
				continue
			}
			p := live[t.Int("peer", len(live))]
			s.ns.peerClosed(p.l, "peer left")
			p.closedBy = "peer"
			s.ns.pump()
			c.Count("fault.peer_disconnects")
			c.Kind(5, true)
			c.Logf("peer %s disconnects", p.addr)
		case 5: // a message (may race with nothing in this single-threaded world, but exercises the gate)
			if len(live) == 0 {
				continue
			}
			p := live[t.Int("peer", len(live))]
			kind, f := s.otherMessage()
			s.ns.deliver(p.l, f, nil)
			s.ns.pump()
			c.Kind(6, !p.l.dead)
			c.Logf("peer %s sends %s -> dead=%v", p.addr, kind, p.l.dead)
		case 6: // time and the node's housekeeping
			d := time.Duration(5+t.Int("book-sleep", 40)) * time.Second
			time.Sleep(d)
			c.SimNanos += int64(d)
			name := []string{"cullInvalid", "clearStale", "idleCheck"}[t.Int("book-tick", 3)]
			_ = s.n.dm.VerifTick(name)
			s.ns.pump()
			c.Kind(7, true)
			c.Logf("+%v, tick %s", d, name)
		}
		s.checkBookkeeping()
	}
	if c.Failed() {
		return
	}
	// remove every connection: all five maps must be empty
	for _, p := range s.livePeers() {
		s.ns.peerClosed(p.l, "teardown")
	}
	addrs := make([]string, 0, len(s.pend))
	for a := range s.pend {
		addrs = append(addrs, a)
	}
	sort.Strings(addrs)
	for _, a := range addrs {
		s.n.dm.VerifConnectFailure(a, fmt.Errorf("dial tcp %s: connect: connection refused", a))
		delete(s.pend, a)
	}
	s.ns.pump()
	c.Step++
	s.checkBookkeeping()
	if c.Failed() {
		return
	}
	snap := s.n.dm.VerifConnections()
	if len(snap.Conns) == 0 {
		c.Count("probe.all_connections_removed")
		left := []string{}
		if len(snap.Mirrors) != 0 {
			left = append(left, "mirrors")
		}
		if len(snap.IPCounts) != 0 {
			left = append(left, "ipCounts")
		}
		if len(snap.GnetIDs) != 0 {
			left = append(left, "gnetIDs")
		}
		if len(snap.ListenAddrs) != 0 {
			left = append(left, "listenAddrs")
		}
		if len(left) > 0 {
			c.Violate("maps-not-empty", strings.Join(left, ","), "every connection was removed but these maps are not empty: %v (ipCounts=%v listenAddrs=%v mirrors=%v)", left, snap.IPCounts, snap.ListenAddrs, snap.Mirrors)
		}
	}
}

// checkBookkeeping: the maps must describe exactly the connections held.
func (s *peerSim) checkBookkeeping() {
	c := s.c
	snap := s.n.dm.VerifConnections()
	// ground truth: the links that are alive in the pool plus the unresolved outgoing attempts
	want := map[string]string{}
	for _, p := range s.livePeers() {
		want[p.addr] = "live"
	}
	for a := range s.pend {
		want[a] = "pending"
	}
	got := map[string]daemon.VerifConn{}
	for _, x := range snap.Conns {
		got[x.Addr] = x
	}
	for a, k := range want {
		x, ok := got[a]
		if !ok {
			c.Violate("bookkeeping-missing-connection", k, "the node holds a %s connection to %s that its bookkeeping does not list", k, a)
			return
		}
		if (k == "pending") != (x.State == daemon.ConnectionStatePending) {
			c.Violate("bookkeeping-state", k+":"+string(x.State), "connection %s is %s but recorded as %q", a, k, x.State)
			return
		}
	}
	for a, x := range got {
		if _, ok := want[a]; !ok {
			c.Violate("bookkeeping-stale-connection", string(x.State), "the bookkeeping lists %s (%s) but the node holds no such connection", a, x.State)
			return
		}
	}
	if s.checkDerivedMaps(snap, s.prev, s.n.dm.VerifGetByListenAddr) {
		return
	}
	s.prev = got
	c.Count("probe.bookkeeping_compared")
	c.State(uint64(len(snap.Conns)), uint64(len(snap.Mirrors)), uint64(len(snap.ListenAddrs)), uint64(len(s.pend)))
}

// checkDerivedMaps compares the four secondary maps with what the connection list of the same snapshot implies.
// It returns true when it recorded a violation.
func (s *peerSim) checkDerivedMaps(snap daemon.VerifConnSnapshot, prev map[string]daemon.VerifConn, getByListen func(string) (int, int)) bool {
	return checkDerivedMaps(s.c, snap, prev, getByListen)
}

func checkDerivedMaps(c *sim.Ctx, snap daemon.VerifConnSnapshot, prev map[string]daemon.VerifConn, getByListen func(string) (int, int)) bool {
	// derived maps
	ipc := map[string]int{}
	mir := map[uint32]map[string]uint16{}
	ids := map[uint64]string{}
	las := map[string][]string{}
	for _, x := range snap.Conns {
		ip := strings.Split(x.Addr, ":")[0]
		ipc[ip]++
		if x.State == daemon.ConnectionStateIntroduced {
			if mir[x.Mirror] == nil {
				mir[x.Mirror] = map[string]uint16{}
			}
			if _, dup := mir[x.Mirror][ip]; dup {
				c.Violate("two-introduced-share-ip-mirror", "dup", "two introduced connections share IP %s and mirror %x", ip, x.Mirror)
				return true
			}
			mir[x.Mirror][ip] = x.ListenPort
		}
		if x.State != daemon.ConnectionStatePending {
			ids[x.GnetID] = x.Addr
		}
		// listen address: known for outgoing connections from the start, for incoming ones once introduced with a port
		if x.ListenPort != 0 && (x.Outgoing || x.State == daemon.ConnectionStateIntroduced) {
			la := fmt.Sprintf("%s:%d", ip, x.ListenPort)
			las[la] = append(las[la], x.Addr)
		}
		// transitions
		if pv, ok := prev[x.Addr]; ok && pv.GnetID == x.GnetID && x.State != pv.State {
			legal := (pv.State == daemon.ConnectionStatePending && x.State == daemon.ConnectionStateConnected) ||
				(pv.State == daemon.ConnectionStateConnected && x.State == daemon.ConnectionStateIntroduced)
			if !legal {
				c.Violate("illegal-state-transition", string(pv.State)+"->"+string(x.State), "connection %s went from %q to %q", x.Addr, pv.State, x.State)
				return true
			}
		}
	}
	for ip, nExp := range ipc {
		if snap.IPCounts[ip] != nExp {
			c.Violate("ip-count", fmt.Sprintf("got%sexp", cmpSign(bigU(uint64(snap.IPCounts[ip])), bigU(uint64(nExp)))), "per-IP count of %s is %d, the node holds %d connections from it", ip, snap.IPCounts[ip], nExp)
			return true
		}
	}
	for ip, nGot := range snap.IPCounts {
		if nGot != 0 && ipc[ip] == 0 {
			c.Violate("ip-count", "stale", "per-IP count of %s is %d but no connection from it is held", ip, nGot)
			return true
		}
	}
	for m, x := range snap.Mirrors {
		for ip, port := range x {
			if ep, ok := mir[m][ip]; !ok {
				c.Violate("mirror-registry", "stale-entry", "the IP+mirror registry lists (%s, %x) but no introduced connection has it", ip, m)
				return true
			} else if ep != port {
				c.Violate("mirror-registry", "port", "the IP+mirror registry has port %d for (%s, %x), the connection has %d", port, ip, m, ep)
				return true
			}
		}
	}
	for m, x := range mir {
		for ip := range x {
			if _, ok := snap.Mirrors[m][ip]; !ok {
				c.Violate("mirror-registry", "missing-entry", "introduced connection (%s, mirror %x) is missing from the IP+mirror registry", ip, m)
				return true
			}
		}
	}
	if len(ids) != len(snap.GnetIDs) {
		c.Violate("id-map", "size", "connection-id map has %d entries for %d connected connections", len(snap.GnetIDs), len(ids))
		return true
	}
	for id, a := range ids {
		if snap.GnetIDs[id] != a {
			c.Violate("id-map", "entry", "connection-id map maps %d to %q, the connection is %s", id, snap.GnetIDs[id], a)
			return true
		}
	}
	for la, as := range snap.ListenAddrs {
		exp := las[la]
		if !sameStringSet(as, exp) {
			key := la
			if key == "" {
				key = "(empty)"
			}
			kind := "stale-or-wrong"
			if la == "" {
				kind = "empty-listen-address-key"
			}
			c.Violate("listen-address-map", kind, "listen-address map has %v under %s, the connections held give %v", as, key, exp)
			return true
		}
		if n, nils := getByListen(la); nils > 0 {
			c.Violate("listen-address-map", "nil-entry", "looking up listen address %s yields %d entries of which %d are nil", la, n, nils)
			return true
		}
	}
	for la, exp := range las {
		if !sameStringSet(snap.ListenAddrs[la], exp) {
			c.Violate("listen-address-map", "missing", "listen-address map has %v under %s, the connections held give %v", snap.ListenAddrs[la], la, exp)
			return true
		}
	}
	return false
}

func sameStringSet(a, b []string) bool {
	if len(a) != len(b) {
		return false
	}
	x := append([]string{}, a...)
	y := append([]string{}, b...)
	sort.Strings(x)
	sort.Strings(y)
	for i := range x {
		if x[i] != y[i] {
			return false
		}
	}
	return true
}

var _ = sim.Harnessf
