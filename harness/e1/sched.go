// Tape-driven goroutine scheduler, shared in spirit with engine E2 (this file is a copy of e2/sched.go with the
// package name changed; see the explanation there and in DESIGN.md 4.2).  Here it schedules concurrent API
// request goroutines (apiconc.go).
package e1

import (
	"runtime"
	"sort"
	"strconv"
	"strings"
	"time"
)

const maxSlots = 1 << 15

type slot struct {
	goid     uint64
	parent   uint64
	role     string // bottom frame of the goroutine: stable across runs
	label    string // current yield label
	name     string // stable identity, assigned at first sighting
	parked   bool
	released bool
	harness  bool // goroutine belongs to the harness (actors, peers)
}

var (
	slots   [maxSlots]slot
	active  [maxSlots]int32
	nActive int
	wakeAt  int64 // fake-clock instant (UnixNano) up to which parked goroutines may sleep in one go
	schedOn bool
	// abortAll makes every yield and every simulated network operation return at once: used to let goroutines
	// run out when a run is over.
	abortAll bool
	children map[string]int
)

//go:norace
func schedReset() {
	for i := 0; i < nActive; i++ {
		slots[active[i]] = slot{}
	}
	nActive = 0
	wakeAt = 0
	abortAll = false
	schedOn = true
	children = map[string]int{}
}

//go:norace
func schedOff() {
	schedOn = false
	abortAll = true
	for i := 0; i < nActive; i++ {
		slots[active[i]].released = true
	}
}

//go:norace
func isAborted() bool { return abortAll }

// curGoid parses the goroutine id from the stack header.
func curGoid() uint64 {
	var b [48]byte
	n := runtime.Stack(b[:], false)
	// "goroutine 123 ["
	s := b[:n]
	i := len("goroutine ")
	var v uint64
	for ; i < len(s) && s[i] >= '0' && s[i] <= '9'; i++ {
		v = v*10 + uint64(s[i]-'0')
	}
	return v
}

// ancestry returns the creator's goroutine id and the bottom frame (function
// the goroutine was started with) of the calling goroutine.
func ancestry() (parent uint64, role string) {
	buf := make([]byte, 1<<15)
	n := runtime.Stack(buf, false)
	lines := strings.Split(string(buf[:n]), "\n")
	for i := len(lines) - 1; i >= 0; i-- {
		l := lines[i]
		if strings.HasPrefix(l, "created by ") {
			if j := strings.LastIndex(l, " in goroutine "); j >= 0 {
				parent, _ = strconv.ParseUint(strings.TrimSpace(l[j+len(" in goroutine "):]), 10, 64)
			}
			// the frame before "created by" is two lines up (function line, then file line)
			if i >= 2 {
				role = funcName(lines[i-2])
			}
			return
		}
	}
	// no "created by": main goroutine of the bubble / test
	for i := len(lines) - 1; i >= 0; i-- {
		if l := lines[i]; l != "" && !strings.HasPrefix(l, "\t") && !strings.HasPrefix(l, "goroutine ") {
			role = funcName(l)
			break
		}
	}
	return
}

func funcName(l string) string {
	if k := strings.LastIndex(l, "("); k > 0 {
		l = l[:k]
	}
	if k := strings.LastIndex(l, "/"); k >= 0 {
		l = l[k+1:]
	}
	return l
}

//go:norace
func claim(gid uint64) *slot {
	s := &slots[gid%maxSlots]
	if s.goid != gid {
		parent, role := ancestry()
		*s = slot{goid: gid, parent: parent, role: role}
		active[nActive] = int32(gid % maxSlots)
		nActive++
	}
	return s
}

// Register gives the calling harness goroutine a fixed identity.
//
//go:norace
func Register(name string) {
	s := claim(curGoid())
	s.name = name
	s.harness = true
}

func fakeNow() int64 { return time.Now().UnixNano() }

// Yield parks the calling goroutine until the controller releases it.
//
//go:norace
func Yield(label string) {
	if !schedOn {
		return
	}
	s := claim(curGoid())
	s.label = label
	s.released = false
	s.parked = true
	for !s.released {
		d := wakeAt - fakeNow()
		if d <= 0 {
			d = 1
		}
		time.Sleep(time.Duration(d))
	}
	s.parked = false
}

type parkedG struct {
	idx     int32
	name    string
	label   string
	harness bool
}

// collectParked names newly seen goroutines and returns the parked ones in canonical order.
//
//go:norace
func collectParked() []parkedG {
	// name new goroutines: by (parent name, role), ordinal among siblings in goroutine-id order
	var fresh []int32
	for i := 0; i < nActive; i++ {
		if s := &slots[active[i]]; s.name == "" {
			fresh = append(fresh, active[i])
		}
	}
	sort.Slice(fresh, func(a, b int) bool { return slots[fresh[a]].goid < slots[fresh[b]].goid })
	for _, ix := range fresh {
		s := &slots[ix]
		pn := "?"
		if p := &slots[s.parent%maxSlots]; s.parent != 0 && p.goid == s.parent && p.name != "" {
			pn = p.name
		}
		key := pn + "/" + s.role
		children[key]++
		s.name = key + "#" + strconv.Itoa(children[key])
	}
	var out []parkedG
	for i := 0; i < nActive; i++ {
		if s := &slots[active[i]]; s.parked && !s.released {
			out = append(out, parkedG{idx: active[i], name: s.name, label: s.label, harness: s.harness})
		}
	}
	sort.Slice(out, func(a, b int) bool {
		if out[a].name != out[b].name {
			return out[a].name < out[b].name
		}
		return out[a].label < out[b].label
	})
	return out
}

//go:norace
func release(ix int32) {
	slots[ix].released = true
}

//go:norace
func setWakeAt(t int64) { wakeAt = t }

// step lets released goroutines run: everything parked wakes at the next fake nanosecond.
func stepOnce() {
	setWakeAt(fakeNow() + 1)
	time.Sleep(1)
}

// advance moves the fake clock by d while parked goroutines stay parked.
func advance(d time.Duration) {
	setWakeAt(fakeNow() + 1 + int64(d))
	time.Sleep(1)
	time.Sleep(d)
}
