package e1

import (
	"encoding/binary"
	"fmt"
	"os"
	"time"

	"github.com/skycoin/skycoin/src/daemon"
	"github.com/skycoin/skycoin/src/visor/dbutil"

	"verifsim/model"
	"verifsim/sim"
)

func mkdirAll(p string) error { return os.MkdirAll(p, 0o700) }

// buildChain lets the real publisher (node 0 of w) create n blocks and returns them.
func buildChain(c *sim.Ctx, w *world, n int) []model.Block { return buildChainOpt(c, w, n, false) }

// legacyBlock makes, by hand, a block as older publishers signed them (the main chain has some): a transaction
// whose 64-bit output-hour sum wraps, leaving an output just below 2^64 hours, or - once such an output exists
// and time has passed - a transaction that spends an input whose accrued hours have passed 2^64 (it counts as
// zero inside a block).  Today's publisher code never puts these into a block (it applies the rules for single
// transactions), but every node has to accept them from the publisher's chain.
func legacyBlock(c *sim.Ctx, w *world) (model.Block, bool) {
	pub := w.nodes[0]
	var tx model.Txn
	ok := false
	if c.T.Bool("legacy-spend-overflowed") {
		headTime := pub.m.Head().Head.Time
		for _, id := range w.ownedUnspents(pub.m) {
			if _, over, inter := model.AccruedHours(pub.m.Unspent[id], headTime); over && !inter {
				if tx, ok = w.mkSpendOf(pub.m, []model.Hash{id}, 0); ok {
					c.Count("probe.legacy_chain_spends_overflowed_input")
				}
				break
			}
		}
		if !ok {
			if tx, ok = w.mkOverflowCombo(pub.m); ok {
				c.Count("probe.legacy_chain_spends_overflowed_input")
			}
		}
	}
	if !ok {
		base, ok2 := w.mkSpend(pub.m, false)
		if !ok2 {
			return model.Block{}, false
		}
		tx = w.mutate(pub.m, base, mutHourOverflow)
		ok = true
	}
	tm := uint64(time.Now().Unix())
	if tm <= pub.m.Head().Head.Time {
		tm = pub.m.Head().Head.Time + 1
	}
	b := mkBlock(pub.m, []model.Txn{tx}, tm)
	signBlock(&b, &w.pubKey)
	return b, true
}

func buildChainOpt(c *sim.Ctx, w *world, n int, legacy bool) []model.Block {
	pub := w.nodes[0]
	var out []model.Block
	for tries := 0; len(out) < n && tries < n*6; tries++ {
		if legacy && c.T.Chance("chain-legacy-block", 1, 5) {
			time.Sleep(time.Duration(1+c.T.Int("chain-gap", 30000)) * time.Second)
			if b, ok := legacyBlock(c, w); ok {
				if v := pub.m.CheckBlock(&b); v.V == model.Accept {
					if err := pub.v.ExecuteSignedBlock(cBlock(&b)); err != nil {
						// the node that builds the chain here runs the same block rules as every follower: a block of the
						// publisher's chain that the rules for blocks accept and a node refuses is what leaves followers
						// stuck below the publisher's head for good
						c.Violate("chain-block-refused", "legacy-hours-rule", "a node refuses block %d signed by the publisher although the rules for transactions inside blocks accept it (output-hour sum wraps / an input's accrued hours passed 2^64): %v", b.Head.BkSeq, err)
						return out
					}
					pub.m.Apply(b)
					out = append(out, b)
					c.Count("probe.legacy_quirk_block_in_chain")
				}
			}
			continue
		}
		ntx := 1 + c.T.Pick("chain-ntx", 4, 2, 1)
		for i := 0; i < ntx; i++ {
			tx, ok := w.mkSpend(pub.m, false)
			if !ok {
				continue
			}
			exp, _ := pub.m.InjectForeign(&tx, pub.m.Cfg.Unconfirmed)
			_, _, err := pub.v.InjectForeignTransaction(cTxn(&tx))
			if (err == nil) != (exp.Class == model.OK || exp.Class == model.Soft) {
				return out // C06's matter
			}
		}
		time.Sleep(time.Duration(1+c.T.Int("chain-gap", 30)) * time.Second)
		sb, err := pub.v.CreateAndExecuteBlock()
		if err != nil {
			continue
		}
		mb := mBlock(&sb)
		if v := pub.m.CheckBlock(&mb); v.V != model.Accept {
			return out // C04/C05's matter
		}
		pub.m.Apply(mb)
		out = append(out, mb)
	}
	return out
}

type relay struct {
	cp       *chaosPeer
	pendingG []daemon.GetBlocksMessage // GETB requests received from the follower, unanswered
	seen     int
}

type syncSim struct {
	c      *sim.Ctx
	w      *world
	ns     *netSim
	f      *netNode
	chain  []model.Block // publisher's blocks, chain[i].BkSeq == i+1
	relays []*relay
	// request tracking
	lastGetB map[string]uint64 // per relay addr: LastBlock of the latest GETB seen
}

// newChaos attaches a scripted peer to node n as an incoming connection.
func (ns *netSim) newChaos(n *netNode, name, addr string) (*chaosPeer, error) {
	l, err := ns.attach(n, addr, false)
	cp := &chaosPeer{name: name, addr: addr, l: l}
	l.chaos = cp
	return cp, err
}

func (s *syncSim) scanRelay(r *relay) {
	for ; r.seen < len(r.cp.received); r.seen++ {
		p, b, ok := parseFrame(r.cp.received[r.seen])
		if !ok {
			s.c.Violate("malformed-frame-sent", "frame", "follower put a malformed frame on the wire")
			return
		}
		switch p {
		case "GETB":
			var g daemon.GetBlocksMessage
			if _, err := g.Decode(b); err != nil {
				s.c.Violate("malformed-frame-sent", "GETB", "follower sent an undecodable GETB: %v", err)
				return
			}
			r.pendingG = append(r.pendingG, g)
			s.lastGetB[r.cp.addr] = g.LastBlock
			s.c.Count("probe.getb_seen")
		}
	}
}

// modelGive applies one GIVB message to the follower's model with the
// documented rule: skip blocks at or below the head (as it was when the
// message arrived), execute the rest in order, stop at the first failure.
func (s *syncSim) modelGive(bs []model.Block) (appended int, undecided bool) {
	m := s.f.m
	maxSeq := m.Head().Head.BkSeq
	for i := range bs {
		if bs[i].Head.BkSeq <= maxSeq {
			continue
		}
		v := m.CheckBlock(&bs[i])
		if v.V == model.Either {
			return appended, true
		}
		if v.V != model.Accept {
			break
		}
		m.Apply(bs[i])
		appended++
	}
	return appended, false
}

func runSync(c *sim.Ctx) {
	w := newWorld(c, 1, worldOpts{hugeWeight: 0})
	defer w.closeAll()
	t := c.T
	nb := t.Range("sync-blocks", 3, 12)
	if c.Tier == "thorough" {
		nb = t.Range("sync-blocks", 3, 25)
	}
	s := &syncSim{c: c, w: w, lastGetB: map[string]uint64{}}
	s.chain = buildChainOpt(c, w, nb, true)
	if c.Failed() {
		return
	}
	if len(s.chain) < 2 {
		c.Count("desync.short_chain")
		return
	}
	ns := newNetSim(c, w)
	ns.drawKnobs(true)
	s.ns = ns
	s.f = ns.addDaemon(w.nodes[1], "10.0.0.2", 6000, 0x1111)
	defer ns.shutdown()
	nr := t.Range("relays", 1, 3)
	for i := 0; i < nr; i++ {
		cp, err := ns.newChaos(s.f, fmt.Sprintf("relay%d", i), fmt.Sprintf("10.0.1.%d:%d", i+1, 7000+i))
		if err != nil {
			sim.Harnessf("attach relay: %v", err)
		}
		s.relays = append(s.relays, &relay{cp: cp})
	}
	ns.pump()
	for i, r := range s.relays {
		ns.deliver(r.cp.l, ns.introFrame(uint32(0x2000+i), uint16(7000+i), 2, w.pubKey.pub, nil), nil)
		ns.pump()
		s.scanRelay(r)
	}
	c.Sample = append(c.Sample, fmt.Sprintf("publisher chain of %d blocks, %d relays, request count %d, response cap %d", len(s.chain), nr, ns.knobs.getBlocksRequestCnt, ns.knobs.maxGetBlocksResp))

	steps := t.Range("sync-steps", 10, 60)
	for c.Step = 1; c.Step <= steps && !c.Failed(); c.Step++ {
		s.step()
		if c.Failed() {
			return
		}
		s.safety()
	}
	if c.Failed() {
		return
	}
	s.liveness()
}

func (s *syncSim) liveRelay() *relay {
	var live []*relay
	for _, r := range s.relays {
		if !r.cp.l.dead {
			live = append(live, r)
		}
	}
	if len(live) == 0 {
		return nil
	}
	return live[s.c.T.Int("relay", len(live))]
}

func (s *syncSim) step() {
	c := s.c
	t := c.T
	r := s.liveRelay()
	if r == nil {
		// every relay was disconnected: reconnect one
		i := len(s.relays)
		cp, err := s.ns.newChaos(s.f, fmt.Sprintf("relay%d", i), fmt.Sprintf("10.0.1.%d:%d", 10+i, 7100+i))
		if err != nil {
			return
		}
		nr := &relay{cp: cp}
		s.relays = append(s.relays, nr)
		s.ns.pump()
		s.ns.deliver(cp.l, s.ns.introFrame(uint32(0x3000+i), uint16(7100+i), 2, s.w.pubKey.pub, nil), nil)
		s.ns.pump()
		s.scanRelay(nr)
		c.Count("fault.relay_reconnected")
		return
	}
	head := int(s.f.m.Head().Head.BkSeq)
	switch t.Pick("sync-op", 6, 5, 3, 2, 2, 2, 1) {
	case 0: // answer a pending request honestly (possibly capped / split differently than requested)
		if len(r.pendingG) == 0 {
			return
		}
		g := r.pendingG[0]
		r.pendingG = r.pendingG[1:]
		cnt := int(g.RequestedBlocks)
		switch t.Pick("answer-shape", 4, 2, 1, 1) {
		case 1:
			cnt = 1 + t.Int("answer-fewer", cnt)
			c.Count("fault.relay_answers_with_fewer_blocks")
		case 2:
			cnt = cnt + 1 + t.Int("answer-more", 3)
		case 3:
			c.Count("fault.relay_ignores_request")
			return
		}
		from := int(g.LastBlock) // blocks after LastBlock
		var bs []model.Block
		for i := from; i < from+cnt && i < len(s.chain); i++ {
			bs = append(bs, s.chain[i])
		}
		if len(bs) == 0 {
			return
		}
		s.give(r, bs, "answer")
	case 1: // unsolicited / arbitrary selection of real blocks
		if t.Chance("give-empty", 1, 12) {
			// a message without blocks: what is left over when a peer splits its answer unevenly
			c.Count("fault.empty_blocks_message")
			s.give(r, nil, "empty")
			return
		}
		n := 1 + t.Int("give-n", 5)
		var bs []model.Block
		label := "unsolicited"
		switch t.Pick("give-shape", 4, 2, 2, 2, 1) {
		case 0: // the right next blocks
			for i := head; i < head+n && i < len(s.chain); i++ {
				bs = append(bs, s.chain[i])
			}
		case 1: // starts in the past (duplicates) and runs past the head
			st := head - t.Int("give-back", 4)
			if st < 0 {
				st = 0
			}
			for i := st; i < st+n+2 && i < len(s.chain); i++ {
				bs = append(bs, s.chain[i])
			}
			label = "overlapping"
			c.Count("fault.duplicate_blocks")
		case 2: // gap: skips the next block
			for i := head + 1 + t.Int("give-gap", 3); len(bs) < n && i < len(s.chain); i++ {
				bs = append(bs, s.chain[i])
			}
			label = "gap"
			c.Count("fault.gap_in_blocks")
		case 3: // shuffled
			for i := head; i < head+n+1 && i < len(s.chain); i++ {
				bs = append(bs, s.chain[i])
			}
			for i := len(bs) - 1; i > 0; i-- {
				j := t.Int("shuffle", i+1)
				bs[i], bs[j] = bs[j], bs[i]
			}
			label = "shuffled"
			c.Count("fault.reordered_blocks")
		case 4: // the same block many times
			if head < len(s.chain) {
				for i := 0; i < n+1; i++ {
					bs = append(bs, s.chain[head])
				}
			}
			label = "repeated"
			c.Count("fault.duplicate_blocks")
		}
		if len(bs) > 0 {
			s.give(r, bs, label)
		}
	case 2: // forged or re-signed blocks mixed in
		if head >= len(s.chain) {
			return
		}
		var bs []model.Block
		good := s.chain[head]
		bad := good
		bad.Txns = append([]model.Txn{}, good.Txns...)
		switch t.Pick("forge-kind", 2, 2, 1, 1, 2, 1, 1) {
		case 0: // same block, signed by somebody else
			signBlock(&bad, &s.w.forger)
		case 1: // mutated and re-signed by somebody else
			bad.Head.Time++
			signBlock(&bad, &s.w.forger)
		case 2: // publisher signature kept, header changed
			bad.Head.Fee++
		case 3: // signature bit flip
			bad.Sig[t.Int("forge-sig-byte", 64)] ^= 1 << t.Draw("forge-sig-bit", 8)
		case 4: // the publisher's header and signature with a transaction withheld (needs no key)
			k := t.Int("forge-drop", len(bad.Txns))
			bad.Txns = append(append([]model.Txn{}, bad.Txns[:k]...), bad.Txns[k+1:]...)
			c.Count("fault.body_swapped_under_genuine_header")
		case 5: // ... with the transactions reordered, or the only one doubled
			if len(bad.Txns) >= 2 {
				bad.Txns[0], bad.Txns[len(bad.Txns)-1] = bad.Txns[len(bad.Txns)-1], bad.Txns[0]
			} else {
				bad.Txns = append(bad.Txns, bad.Txns[0])
			}
			c.Count("fault.body_swapped_under_genuine_header")
		case 6: // ... with the body of the following block
			if head+1 < len(s.chain) {
				bad.Txns = append([]model.Txn{}, s.chain[head+1].Txns...)
			} else {
				bad.Txns = nil
			}
			c.Count("fault.body_swapped_under_genuine_header")
		}
		if t.Bool("forged-first") {
			bs = append(bs, bad, good)
		} else {
			bs = append(bs, good, bad)
			if head+1 < len(s.chain) {
				bs = append(bs, s.chain[head+1])
			}
		}
		c.Count("fault.forged_block")
		s.give(r, bs, "forged-mix")
	case 3: // announcement
		seq := uint64(t.Int("announce-seq", len(s.chain)+3))
		before := len(r.cp.received)
		m := daemon.NewAnnounceBlocksMessage(seq)
		s.ns.deliver(r.cp.l, frame("ANNB", body(m)), nil)
		s.ns.pump()
		s.scanRelay(r)
		c.Kind(3, seq > uint64(head))
		c.Logf("relay %s announces %d (head %d)", r.cp.name, seq, head)
		if r.cp.l.dead {
			return
		}
		// on a higher announcement the follower requests blocks above its head from that peer
		if seq > uint64(head) {
			found := false
			for _, f := range r.cp.received[before:] {
				if p, b, ok := parseFrame(f); ok && p == "GETB" {
					var g daemon.GetBlocksMessage
					if _, err := g.Decode(b); err == nil && g.LastBlock == uint64(head) {
						found = true
						if g.RequestedBlocks == 0 {
							c.Violate("no-request-after-announcement", "getb-for-zero-blocks", "follower at head %d answered an announcement of %d with a request for zero blocks", head, seq)
							return
						}
					}
				}
			}
			if !found {
				c.Violate("no-request-after-announcement", "annb", "follower at head %d did not request blocks from a peer announcing %d", head, seq)
			}
		}
	case 4: // timers
		name := []string{"blocksRequest", "blocksAnnounce", "idleCheck"}[t.Pick("tick", 3, 1, 1)]
		_ = s.f.dm.VerifTick(name)
		s.ns.pump()
		for _, rr := range s.relays {
			s.scanRelay(rr)
		}
		c.Kind(4, true)
		c.Logf("tick %s", name)
	case 5: // time passes
		d := time.Duration(1+t.Int("sync-sleep", 20)) * time.Second
		time.Sleep(d)
		c.SimNanos += int64(d)
	case 6: // relay goes away
		s.ns.peerClosed(r.cp.l, "relay left")
		r.cp.closedBy = "peer"
		s.ns.pump()
		c.Count("fault.relay_disconnects")
		c.Logf("relay %s disconnects", r.cp.name)
	}
}

// give delivers a GIVB message with the given blocks and checks exactness and the follow-up requests.
func (s *syncSim) give(r *relay, bs []model.Block, label string) {
	c := s.c
	t := c.T
	headBefore := s.f.m.Head().Head.BkSeq
	f := blocksFrame(bs)
	var cuts []int
	if t.Chance("chunked", 1, 3) {
		for i := 0; i < 1+t.Int("chunks", 4); i++ {
			cuts = append(cuts, 1+t.Int("cut", len(f)-1))
		}
		c.Count("fault.chunked_delivery")
	}
	dup := t.Chance("dup-frame", 1, 10)
	before := len(r.cp.received)
	// a disk fault: the first database transaction the follower commits while it handles this message fails
	// (everything was written, then rolled back).  The block it belonged to is not appended, the node stops at that
	// block, and its head is what it was - in the database and in whatever the node keeps in memory
	commitFails := len(bs) > 0 && t.Chance("sync-commit-fails", 1, 12)
	fired := false
	if commitFails {
		dbutil.VerifBeforeCommit = func(db *dbutil.DB, name string) error {
			if fired || db.Path() != s.f.path {
				return nil
			}
			fired = true
			return errSimCommit
		}
	}
	s.ns.deliver(r.cp.l, f, cuts)
	s.ns.pump()
	dbutil.VerifBeforeCommit = nil
	if fired {
		c.Count("fault.io_error_at_commit")
		c.Logf("relay %s gives %s at head %d while the follower's disk fails one commit", r.cp.name, label, headBefore)
		got, _, err := s.f.v.HeadBkSeq()
		if err != nil {
			sim.Harnessf("HeadBkSeq: %v", err)
		}
		// blocks before the failing one may have been appended; the model follows the node up to its database head,
		// which must be a gap-free prefix of what was given
		for i := range bs {
			if bs[i].Head.BkSeq == s.f.m.Head().Head.BkSeq+1 && bs[i].Head.BkSeq <= got {
				if v := s.f.m.CheckBlock(&bs[i]); v.V == model.Accept {
					s.f.m.Apply(bs[i])
				}
			}
		}
		if got != s.f.m.Head().Head.BkSeq {
			c.Violate("sync-head", "after-failed-commit", "after a GIVB during which one commit failed the follower reports head %d; the blocks it really holds end at %d", got, s.f.m.Head().Head.BkSeq)
			return
		}
		sb, err := s.f.v.GetSignedBlockBySeq(got)
		if err != nil || sb == nil {
			c.Violate("sync-head", "head-block-missing-after-failed-commit", "after a failed commit the follower reports head %d but does not hold that block (%v)", got, err)
		}
		return
	}
	appended, und := s.modelGive(bs)
	if dup && !r.cp.l.dead {
		c.Count("fault.duplicate_frame")
		s.ns.deliver(r.cp.l, f, nil)
		s.ns.pump()
		a2, u2 := s.modelGive(bs)
		appended += a2
		und = und || u2
	}
	for _, rr := range s.relays {
		s.scanRelay(rr)
	}
	seqs := make([]uint64, len(bs))
	for i := range bs {
		seqs[i] = bs[i].Head.BkSeq
	}
	c.Kind(1, appended > 0)
	c.Logf("relay %s gives %s %v at head %d -> model appends %d", r.cp.name, label, seqs, headBefore, appended)
	if und {
		c.Undecided++
		return
	}
	if appended > 0 {
		c.Count("probe.blocks_appended_from_givb")
	}
	got, _, err := s.f.v.HeadBkSeq()
	if err != nil {
		sim.Harnessf("HeadBkSeq: %v", err)
	}
	want := s.f.m.Head().Head.BkSeq
	if got != want {
		c.Violate("sync-head", fmt.Sprintf("%s:got%sexp", label, cmpSign(bigU(got), bigU(want))), "after a %s GIVB %v at head %d the follower's head is %d; skip-known / stop-at-first-failure gives %d", label, seqs, headBefore, got, want)
		return
	}
	// after every accepted batch the follower announces and requests above its new head
	if appended > 0 && !r.cp.l.dead {
		okReq, okAnn := false, false
		for _, fr := range r.cp.received[before:] {
			p, b, ok := parseFrame(fr)
			if !ok {
				continue
			}
			if p == "GETB" {
				if lb := binary.LittleEndian.Uint64(b[:8]); lb == want {
					okReq = true
				}
			}
			if p == "ANNB" && binary.LittleEndian.Uint64(b[:8]) == want {
				okAnn = true
			}
		}
		if !okReq {
			c.Violate("no-request-after-batch", "getb", "follower appended %d blocks (head %d) but did not request blocks above its new head", appended, want)
			return
		}
		if !okAnn {
			c.Violate("no-announce-after-batch", "annb", "follower appended %d blocks (head %d) but did not announce its new head", appended, want)
		}
	}
}

// safety: the follower's chain is always a prefix of the publisher's, block for block.
func (s *syncSim) safety() {
	c := s.c
	head, _, err := s.f.v.HeadBkSeq()
	if err != nil {
		sim.Harnessf("HeadBkSeq: %v", err)
	}
	if head > uint64(len(s.chain)) {
		c.Violate("follower-ahead-of-publisher", "ahead", "follower head %d is beyond the publisher's chain (%d)", head, len(s.chain))
		return
	}
	for seq := uint64(1); seq <= head; seq++ {
		b, err := s.f.v.GetSignedBlockBySeq(seq)
		if err != nil || b == nil {
			c.Violate("follower-chain-hole", "hole", "follower at head %d has no block %d", head, seq)
			return
		}
		mb := mBlock(b)
		pb := s.chain[seq-1]
		if mb.Head != pb.Head || mb.Sig != pb.Sig {
			c.Violate("follower-holds-foreign-block", "foreign", "follower block %d is not the publisher's block (header or signature differ)", seq)
			return
		}
	}
	c.State(head, uint64(len(s.chain)), uint64(len(s.relays)))
}

// liveness: once faults stop and one honest peer with the full chain stays
// connected, the follower reaches the publisher's head within 10 request periods.
func (s *syncSim) liveness() {
	c := s.c
	i := len(s.relays)
	cp, err := s.ns.newChaos(s.f, "honest", fmt.Sprintf("10.0.2.1:%d", 7500+i))
	if err != nil {
		// connection limits: not a sync matter
		c.Count("desync.cannot_attach_honest_peer")
		return
	}
	h := &relay{cp: cp}
	s.relays = append(s.relays, h)
	s.ns.pump()
	s.ns.deliver(cp.l, s.ns.introFrame(0x7777, uint16(7500+i), 2, s.w.pubKey.pub, nil), nil)
	s.ns.pump()
	answer := func() {
		for rounds := 0; rounds < 400; rounds++ {
			s.scanRelay(h)
			if len(h.pendingG) == 0 || cp.l.dead {
				return
			}
			g := h.pendingG[0]
			h.pendingG = h.pendingG[1:]
			var bs []model.Block
			for i := int(g.LastBlock); i < int(g.LastBlock)+int(g.RequestedBlocks) && i < len(s.chain); i++ {
				bs = append(bs, s.chain[i])
			}
			if len(bs) == 0 {
				continue
			}
			s.ns.deliver(cp.l, blocksFrame(bs), nil)
			s.ns.pump()
			if _, und := s.modelGive(bs); und {
				c.Undecided++
			}
		}
	}
	answer()
	for period := 0; period < 10; period++ {
		head, _, _ := s.f.v.HeadBkSeq()
		if head == uint64(len(s.chain)) {
			c.Count("probe.liveness_reached_head")
			s.safety()
			return
		}
		time.Sleep(60 * time.Second)
		c.SimNanos += int64(60 * time.Second)
		_ = s.f.dm.VerifTick("blocksRequest")
		s.ns.pump()
		answer()
	}
	head, _, _ := s.f.v.HeadBkSeq()
	if head != uint64(len(s.chain)) {
		if cp.l.dead {
			c.Violate("honest-peer-disconnected", "liveness", "the follower disconnected an honest, correctly introduced peer during catch-up (head %d of %d)", head, len(s.chain))
			return
		}
		c.Violate("no-catch-up", "liveness", "with one honest full-chain peer answering every request and no faults, the follower is at %d of %d after 10 request periods", head, len(s.chain))
	}
}
