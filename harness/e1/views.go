package e1

import (
	"fmt"
	"math/big"
	"sort"

	"github.com/skycoin/skycoin/src/cipher"
	"github.com/skycoin/skycoin/src/visor"

	"verifsim/model"
	"verifsim/sim"
)

// allAddrs returns the addresses the workload uses plus one stranger.
func (w *world) allAddrs() []model.Addr {
	as := []model.Addr{w.genKey.m, w.locked.m, w.unlocked.m}
	for _, k := range w.clients {
		as = append(as, k.m)
	}
	var stranger model.Addr
	stranger[5] = 0x77
	as = append(as, stranger)
	return as
}

func (w *world) drawAddrs(t *sim.Tape) []model.Addr {
	all := w.allAddrs()
	n := 1 + t.Int("q-naddr", 4)
	out := make([]model.Addr, n)
	for i := range out {
		out[i] = all[t.Int("q-addr", len(all))]
	}
	return out
}

func cAddrs(ms []model.Addr) []cipher.Address {
	out := make([]cipher.Address, len(ms))
	for i := range ms {
		out[i] = cAddr(ms[i])
	}
	return out
}

// queryViews asks one node a batch of derived-view questions and compares
// each answer with what follows from the model's chain and pool (C07), or
// checks hour monotonicity (C03).
func (s *ledgerSim) queryViews() {
	c := s.c
	t := c.T
	n := s.pickNode()
	m := n.m
	c.Kind(kQuery, true)
	if s.prop == "C03" {
		s.hoursMonotone(n)
		return
	}
	if s.prop != "C07" {
		return
	}
	addrs := s.w.drawAddrs(t)
	c.Logf("query n%d addrs=%d", n.id, len(addrs))

	// per-address unspent index
	got, err := n.v.GetUnspentsOfAddrs(cAddrs(addrs))
	if err != nil {
		sim.Harnessf("GetUnspentsOfAddrs: %v", err)
	}
	for _, a := range addrs {
		exp := map[model.Hash]model.Ux{}
		for id, u := range m.Unspent {
			if u.Addr == a {
				exp[id] = u
			}
		}
		g := got[cAddr(a)]
		if len(g) != len(exp) {
			c.Violate("addr-index", fmt.Sprintf("count got%sexp", cmpSign(big.NewInt(int64(len(g))), big.NewInt(int64(len(exp))))), "node %d lists %d unspents for address %x, chain says %d", n.id, len(g), a[1:5], len(exp))
			return
		}
		for i := range g {
			u := mUx(&g[i])
			if e, ok := exp[u.ID()]; !ok || e != u {
				c.Violate("addr-index", "entry", "node %d address index for %x lists %s which the chain does not give it", n.id, a[1:5], short(u.ID()))
				return
			}
		}
	}
	// address count
	cnt, err := n.v.AddressCount()
	if err != nil {
		sim.Harnessf("AddressCount: %v", err)
	}
	distinct := map[model.Addr]bool{}
	for _, u := range m.Unspent {
		distinct[u.Addr] = true
	}
	if cnt != uint64(len(distinct)) {
		c.Violate("address-count", fmt.Sprintf("got%sexp", cmpSign(bigU(cnt), bigU(uint64(len(distinct))))), "node %d AddressCount=%d, chain has %d addresses with unspents", n.id, cnt, len(distinct))
		return
	}
	// metadata
	md, err := n.v.GetBlockchainMetadata()
	if err != nil {
		sim.Harnessf("GetBlockchainMetadata: %v", err)
	}
	if md.Unspents != uint64(len(m.Unspent)) || md.Unconfirmed != uint64(len(m.Pool)) || mHeader(&md.HeadBlock.Head) != m.Head().Head {
		c.Violate("metadata", "metadata", "node %d metadata (unspents %d, unconfirmed %d, head %d) disagrees with chain (%d, %d, %d)", n.id, md.Unspents, md.Unconfirmed, md.HeadBlock.Head.BkSeq, len(m.Unspent), len(m.Pool), m.Head().Head.BkSeq)
		return
	}
	s.checkBalances(n, addrs)
	if c.Failed() {
		return
	}
	s.checkHistory(n, addrs)
	if c.Failed() {
		return
	}
	s.checkBlockQueries(n)
}

func (s *ledgerSim) checkBalances(n *node, addrs []model.Addr) {
	c := s.c
	m := n.m
	headTime := m.Head().Head.Time
	stale := false
	spentByPool := map[model.Hash]bool{}
	for _, e := range m.Pool {
		for _, in := range e.Txn.In {
			if _, ok := m.Unspent[in]; !ok {
				stale = true
			}
			spentByPool[in] = true
		}
	}
	// expectations first: a 64-bit overflow anywhere in the exact sums makes the answer (or an error) undecided
	type expBal struct {
		coins, hours, pcoins, phours *big.Int
		has, undecided               bool
	}
	exps := make([]expBal, len(addrs))
	anyUndecided := false
	for i, a := range addrs {
		e := expBal{coins: new(big.Int), hours: new(big.Int), pcoins: new(big.Int), phours: new(big.Int)}
		for id, u := range m.Unspent {
			if u.Addr != a {
				continue
			}
			e.has = true
			h, ov, inter := model.AccruedHours(u, headTime)
			if ov || inter {
				e.undecided = true
			}
			e.coins.Add(e.coins, bigU(u.Coins))
			e.hours.Add(e.hours, h)
			if !spentByPool[id] {
				e.pcoins.Add(e.pcoins, bigU(u.Coins))
				e.phours.Add(e.phours, h)
			}
		}
		for _, h := range m.PoolHashes() {
			for _, o := range m.Pool[h].Txn.Out {
				if o.Addr == a {
					e.pcoins.Add(e.pcoins, bigU(o.Coins))
					e.phours.Add(e.phours, bigU(o.Hours))
				}
			}
		}
		if e.coins.BitLen() > 64 || e.hours.BitLen() > 64 || e.pcoins.BitLen() > 64 || e.phours.BitLen() > 64 {
			e.undecided = true
		}
		if e.undecided {
			anyUndecided = true
		}
		exps[i] = e
	}
	bps, err := n.v.GetBalanceOfAddresses(cAddrs(addrs))
	if err != nil {
		if stale {
			c.Count("probe.balance_error_with_stale_pool")
			return
		}
		if anyUndecided {
			c.Undecided++
			return
		}
		c.Violate("balance-error", "balance-error", "node %d GetBalanceOfAddresses failed although every pooled input is unspent and no sum overflows: %v", n.id, err)
		return
	}
	if len(bps) != len(addrs) {
		c.Violate("balance-shape", "len", "node %d returned %d balances for %d addresses", n.id, len(bps), len(addrs))
		return
	}
	for i, a := range addrs {
		e := exps[i]
		coins, hours, pcoins, phours, has := e.coins, e.hours, e.pcoins, e.phours, e.has
		if e.undecided {
			c.Undecided++
			continue
		}
		g := bps[i]
		if !has {
			// An address without confirmed unspents: confirmed is zero and predicted is whatever
			// the pool sends to it ("predicted = confirmed - outgoing + incoming").
			c.Count("probe.balance_of_address_without_unspents")
		}
		if bigU(g.Confirmed.Coins).Cmp(coins) != 0 || bigU(g.Confirmed.Hours).Cmp(hours) != 0 {
			c.Violate("balance", "confirmed", "node %d confirmed balance of %x = %d coins / %d hours, chain says %s / %s", n.id, a[1:5], g.Confirmed.Coins, g.Confirmed.Hours, coins, hours)
			return
		}
		if bigU(g.Predicted.Coins).Cmp(pcoins) != 0 || bigU(g.Predicted.Hours).Cmp(phours) != 0 {
			c.Violate("balance", "predicted", "node %d predicted balance of %x = %d coins / %d hours, chain+pool say %s / %s", n.id, a[1:5], g.Predicted.Coins, g.Predicted.Hours, pcoins, phours)
			return
		}
		c.Count("probe.balance_compared")
	}
}

func (s *ledgerSim) checkHistory(n *node, addrs []model.Addr) {
	c := s.c
	t := c.T
	m := n.m
	// one output by id: any created output (spent or not) or an unknown id
	ids := make([]model.Hash, 0, len(m.Created))
	for id := range m.Created {
		ids = append(ids, id)
	}
	sort.Slice(ids, func(i, j int) bool { return lessHash(ids[i], ids[j]) })
	for k := 0; k < 3 && len(ids) > 0; k++ {
		id := ids[t.Int("q-ux", len(ids))]
		ux, _, err := n.v.GetUxOutByID(cipher.SHA256(id))
		if err != nil {
			sim.Harnessf("GetUxOutByID: %v", err)
		}
		if ux == nil {
			c.Violate("history-uxout", "missing", "node %d history does not know output %s created in block %d", n.id, short(id), m.Created[id].BkSeq)
			return
		}
		if mUx(&ux.Out) != m.Created[id] {
			c.Violate("history-uxout", "fields", "node %d history output %s fields differ from the chain", n.id, short(id))
			return
		}
		sp, spent := m.Spent[id]
		if spent != (ux.SpentTxnID != cipher.SHA256{}) || (spent && (model.Hash(ux.SpentTxnID) != sp.Txn || ux.SpentBlockSeq != sp.Seq)) {
			c.Violate("history-uxout", "spent-info", "node %d history says output %s spent by %s in block %d; chain says spent=%v by %s in block %d", n.id, short(id), ux.SpentTxnID.Hex()[:8], ux.SpentBlockSeq, spent, short(sp.Txn), sp.Seq)
			return
		}
		c.Count("probe.history_uxout_compared")
	}
	// an unknown id must not yield an output (an error or an empty answer are both fine)
	unk, _, _ := n.v.GetUxOutByID(cipher.SHA256(model.Sum([]byte("nope"))))
	if unk != nil {
		c.Violate("history-uxout", "unknown-id", "node %d returned an output for an id that was never created", n.id)
		return
	}
	// all outputs ever received by the addresses
	outs, _, err := n.v.GetSpentOutputsForAddresses(cAddrs(addrs))
	if err != nil {
		sim.Harnessf("GetSpentOutputsForAddresses: %v", err)
	}
	for i, a := range addrs {
		exp := map[model.Hash]bool{}
		for id, u := range m.Created {
			if u.Addr == a {
				exp[id] = true
			}
		}
		if len(outs[i]) != len(exp) {
			c.Violate("history-address-outputs", fmt.Sprintf("count got%sexp", cmpSign(big.NewInt(int64(len(outs[i]))), big.NewInt(int64(len(exp))))), "node %d history lists %d outputs for address %x, chain created %d", n.id, len(outs[i]), a[1:5], len(exp))
			return
		}
		for _, o := range outs[i] {
			u := mUx(&o.Out)
			id := u.ID()
			if !exp[id] {
				c.Violate("history-address-outputs", "entry", "node %d history lists output %s for address %x which the chain never gave it", n.id, short(id), a[1:5])
				return
			}
			sp, spent := m.Spent[id]
			if spent != (o.SpentTxnID != cipher.SHA256{}) || (spent && (model.Hash(o.SpentTxnID) != sp.Txn || o.SpentBlockSeq != sp.Seq)) {
				c.Violate("history-address-outputs", "spent-info", "node %d history spent-info of %s differs from chain", n.id, short(id))
				return
			}
		}
	}
	// a transaction by hash: confirmed, pooled, unknown
	var hs []model.Hash
	for h := range m.TxnSeq {
		hs = append(hs, h)
	}
	for h := range m.Pool {
		hs = append(hs, h)
	}
	sort.Slice(hs, func(i, j int) bool { return lessHash(hs[i], hs[j]) })
	for k := 0; k < 2 && len(hs) > 0; k++ {
		h := hs[t.Int("q-txn", len(hs))]
		tx, err := n.v.GetTransaction(cipher.SHA256(h))
		if err != nil {
			sim.Harnessf("GetTransaction: %v", err)
		}
		if tx == nil {
			c.Violate("txn-query", "missing", "node %d does not find transaction %s", n.id, short(h))
			return
		}
		seq, conf := m.TxnSeq[h]
		if tx.Status.Confirmed != conf || (conf && (tx.Status.BlockSeq != seq || tx.Status.Height != m.Head().Head.BkSeq-seq+1)) {
			c.Violate("txn-query", "status", "node %d reports txn %s confirmed=%v seq=%d height=%d; chain says confirmed=%v seq=%d head=%d", n.id, short(h), tx.Status.Confirmed, tx.Status.BlockSeq, tx.Status.Height, conf, seq, m.Head().Head.BkSeq)
			return
		}
		mt := mTxn(&tx.Transaction)
		if mt.Hash() != h {
			c.Violate("txn-query", "content", "node %d returned different bytes for txn %s", n.id, short(h))
			return
		}
		c.Count("probe.txn_query_compared")
	}
	num, err := n.v.GetTransactionsNum()
	if err != nil {
		sim.Harnessf("GetTransactionsNum: %v", err)
	}
	if num != uint64(len(m.TxnSeq)) {
		c.Violate("txn-count", fmt.Sprintf("got%sexp", cmpSign(bigU(num), bigU(uint64(len(m.TxnSeq))))), "node %d counts %d confirmed transactions, chain has %d", n.id, num, len(m.TxnSeq))
		return
	}
	// the confirmed transaction history of the addresses: every transaction of the chain that
	// spends an output owned by one of them or pays one of them
	want := map[model.Hash]uint64{}
	inSet := map[model.Addr]bool{}
	for _, a := range addrs {
		inSet[a] = true
	}
	for bi := range m.Chain {
		for ti := range m.Chain[bi].Txns {
			tx := &m.Chain[bi].Txns[ti]
			hit := false
			for _, o := range tx.Out {
				if inSet[o.Addr] {
					hit = true
				}
			}
			for _, in := range tx.In {
				if inSet[m.Created[in].Addr] {
					hit = true
				}
			}
			if hit {
				want[tx.Hash()] = m.Chain[bi].Head.BkSeq
			}
		}
	}
	txs, _, err := n.v.GetTransactions([]visor.TxFilter{visor.NewAddrsFilter(cAddrs(addrs)), visor.NewConfirmedTxFilter(true)}, visor.AscOrder, nil)
	if err != nil {
		sim.Harnessf("GetTransactions: %v", err)
	}
	if len(txs) != len(want) {
		c.Violate("address-txn-history", fmt.Sprintf("count got%sexp", cmpSign(big.NewInt(int64(len(txs))), big.NewInt(int64(len(want))))), "node %d lists %d confirmed transactions for %d addresses, the chain has %d that touch them", n.id, len(txs), len(addrs), len(want))
		return
	}
	lastSeq := uint64(0)
	for i := range txs {
		mt := mTxn(&txs[i].Transaction)
		seq, ok := want[mt.Hash()]
		if !ok || !txs[i].Status.Confirmed || txs[i].Status.BlockSeq != seq {
			c.Violate("address-txn-history", "entry", "node %d lists transaction %s (seq %d) in the address history, the chain says member=%v seq=%d", n.id, short(mt.Hash()), txs[i].Status.BlockSeq, ok, seq)
			return
		}
		if seq < lastSeq {
			c.Violate("address-txn-history", "order", "node %d address history is not in ascending block order", n.id)
			return
		}
		lastSeq = seq
	}
	// the unconfirmed side of the same query: every pooled transaction that pays one of the addresses is listed,
	// and everything listed is a pooled transaction that touches them (the node indexes unconfirmed transactions by
	// the addresses they pay; whether a pure spend is listed too is left open)
	utxs, _, err := n.v.GetTransactions([]visor.TxFilter{visor.NewAddrsFilter(cAddrs(addrs)), visor.NewConfirmedTxFilter(false)}, visor.AscOrder, nil)
	if err != nil {
		c.Violate("address-txn-history", "unconfirmed-query-fails", "node %d: unconfirmed transactions of %d addresses: %v (pool has %d)", n.id, len(addrs), err, len(m.Pool))
		return
	}
	listed := map[model.Hash]bool{}
	for i := range utxs {
		umt := mTxn(&utxs[i].Transaction)
		h := umt.Hash()
		e, ok := m.Pool[h]
		touches := false
		if ok {
			for _, o := range e.Txn.Out {
				touches = touches || inSet[o.Addr]
			}
			for _, in := range e.Txn.In {
				touches = touches || inSet[m.Created[in].Addr]
			}
		}
		if !ok || utxs[i].Status.Confirmed || !touches || listed[h] {
			c.Violate("address-txn-history", "unconfirmed-entry", "node %d lists %s as an unconfirmed transaction of the addresses: pooled=%v confirmed=%v touches=%v repeated=%v", n.id, short(h), ok, utxs[i].Status.Confirmed, touches, listed[h])
			return
		}
		listed[h] = true
	}
	for _, h := range m.PoolHashes() {
		pays := false
		for _, o := range m.Pool[h].Txn.Out {
			pays = pays || inSet[o.Addr]
		}
		if pays && !listed[h] {
			c.Violate("address-txn-history", "unconfirmed-missing", "node %d does not list pooled transaction %s although it pays one of the addresses", n.id, short(h))
			return
		}
	}
	if len(m.Pool) > 0 {
		c.Count("probe.address_unconfirmed_history_compared")
	}
	all, _, err := n.v.GetTransactions([]visor.TxFilter{visor.NewConfirmedTxFilter(true)}, visor.AscOrder, nil)
	if err != nil {
		sim.Harnessf("GetTransactions(all): %v", err)
	}
	if len(all) != len(m.TxnSeq) {
		c.Violate("address-txn-history", "all-confirmed-count", "node %d lists %d confirmed transactions, the chain has %d", n.id, len(all), len(m.TxnSeq))
		return
	}
	c.Count("probe.address_txn_history_compared")
}

func (s *ledgerSim) checkBlockQueries(n *node) {
	c := s.c
	t := c.T
	m := n.m
	seq := uint64(t.Int("q-seq", len(m.Chain)+1))
	b, err := n.v.GetSignedBlockBySeq(seq)
	if err != nil {
		sim.Harnessf("GetSignedBlockBySeq: %v", err)
	}
	if seq < uint64(len(m.Chain)) {
		// (the publisher signs its own genesis block with a fresh nonce, so that one signature is its own)
		if b == nil || mHeader(&b.Head) != m.Chain[seq].Head || (model.Sig(b.Sig) != m.Chain[seq].Sig && !(seq == 0 && n.publisher)) {
			c.Violate("block-query", "by-seq", "node %d block %d differs from the accepted chain", n.id, seq)
			return
		}
		bh, err := n.v.GetSignedBlockByHash(cipher.SHA256(m.Chain[seq].Head.Hash()))
		if err != nil || bh == nil || mHeader(&bh.Head) != m.Chain[seq].Head {
			c.Violate("block-query", "by-hash", "node %d does not return block %d by its hash (%v)", n.id, seq, err)
			return
		}
	} else if b != nil {
		c.Violate("block-query", "beyond-head", "node %d returns a block for seq %d beyond its head", n.id, seq)
		return
	}
	num := uint64(t.Int("q-last", 6))
	last, err := n.v.GetLastBlocks(num)
	if err != nil {
		sim.Harnessf("GetLastBlocks: %v", err)
	}
	want := int(num)
	if want > len(m.Chain) {
		want = len(m.Chain)
	}
	if len(last) != want {
		c.Violate("block-query", "last-n-count", "node %d GetLastBlocks(%d) returned %d blocks, chain length %d", n.id, num, len(last), len(m.Chain))
		return
	}
	for i := range last {
		if mHeader(&last[i].Head) != m.Chain[len(m.Chain)-want+i].Head {
			c.Violate("block-query", "last-n", "node %d GetLastBlocks(%d)[%d] is not chain block %d", n.id, num, i, len(m.Chain)-want+i)
			return
		}
	}
	lo := uint64(t.Int("q-lo", len(m.Chain)+1))
	hi := lo + uint64(t.Int("q-span", 5))
	rng, err := n.v.GetBlocksInRange(lo, hi)
	if err != nil {
		sim.Harnessf("GetBlocksInRange: %v", err)
	}
	var exp []uint64
	for q := lo; q <= hi && q < uint64(len(m.Chain)); q++ {
		exp = append(exp, q)
	}
	if len(rng) != len(exp) {
		c.Violate("block-query", "range-count", "node %d GetBlocksInRange(%d,%d) returned %d blocks, expected %d", n.id, lo, hi, len(rng), len(exp))
		return
	}
	for i := range rng {
		if rng[i].Head.BkSeq != exp[i] {
			c.Violate("block-query", "range", "node %d GetBlocksInRange(%d,%d)[%d] has seq %d", n.id, lo, hi, i, rng[i].Head.BkSeq)
			return
		}
	}
	c.Count("probe.block_queries_compared")
}

// hoursMonotone: accrued hours of every unspent output never decrease as the
// chain's time moves forward (observed through the node's own summary API).
func (s *ledgerSim) hoursMonotone(n *node) {
	c := s.c
	if n.id != 0 {
		return
	}
	sumr, err := n.v.GetUnspentOutputsSummary(nil)
	if err != nil {
		// fails while the pool holds a transaction whose input is gone, or on 64-bit overflow
		c.Count("probe.summary_unavailable")
		return
	}
	headTime := sumr.HeadBlock.Head.Time
	cur := map[model.Hash]*big.Int{}
	for _, o := range sumr.Confirmed {
		u := mUx(&o.UxOut)
		id := u.ID()
		exact, ov, inter := model.AccruedHours(u, headTime)
		got := bigU(o.CalculatedHours)
		if !ov && !inter && got.Cmp(exact) != 0 {
			c.Violate("accrued-hours", "formula", "node reports %d accrued hours for output %s (coins %d, hours %d, age %d s); hours + coins*age/3.6e9 = %s", o.CalculatedHours, short(id), u.Coins, u.Hours, headTime-u.Time, exact)
			return
		}
		if ov || inter {
			c.Undecided++
			continue
		}
		cur[id] = got
		if prev, ok := s.lastHours[id]; ok && headTime >= s.lastHoursAt && got.Cmp(prev) < 0 {
			c.Violate("accrued-hours", "decreased", "accrued hours of output %s fell from %s to %s while head time went %d -> %d", short(id), prev, got, s.lastHoursAt, headTime)
			return
		}
		c.Count("probe.accrued_hours_compared")
	}
	s.lastHours = cur
	s.lastHoursAt = headTime
}

// expectedCoins: confirmed and predicted coins of the addresses in state m (predicted = confirmed - what pooled
// transactions spend + what they pay).  ok is false when the pool holds a transaction whose inputs are gone (the
// node may then refuse the query) or a sum leaves 64 bits.
func expectedCoins(m *model.Ledger, addrs []model.Addr) (conf, pred []*big.Int, ok bool) {
	spentByPool := map[model.Hash]bool{}
	for _, e := range m.Pool {
		for _, in := range e.Txn.In {
			if _, has := m.Unspent[in]; !has {
				return nil, nil, false
			}
			spentByPool[in] = true
		}
	}
	for _, a := range addrs {
		cf, pr := new(big.Int), new(big.Int)
		for id, u := range m.Unspent {
			if u.Addr != a {
				continue
			}
			cf.Add(cf, bigU(u.Coins))
			if !spentByPool[id] {
				pr.Add(pr, bigU(u.Coins))
			}
		}
		for _, e := range m.Pool {
			for _, o := range e.Txn.Out {
				if o.Addr == a {
					pr.Add(pr, bigU(o.Coins))
				}
			}
		}
		if cf.BitLen() > 64 || pr.BitLen() > 64 {
			return nil, nil, false
		}
		conf, pred = append(conf, cf), append(pred, pr)
	}
	return conf, pred, true
}
