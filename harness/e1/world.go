package e1

import (
	"bytes"
	"math/big"
	"sort"

	"github.com/skycoin/skycoin/src/cipher"
	"github.com/skycoin/skycoin/src/params"

	"verifsim/model"
	"verifsim/sim"
)

const bubbleEpoch = 946684800 // synctest bubbles start at 2000-01-01T00:00:00Z

// newWorld draws the per-run universe (swarm style: every run has its own
// sizes, parameters and genesis volume).
func newWorld(c *sim.Ctx, followers int, opt worldOpts) *world {
	w := &world{c: c, byAddr: map[model.Addr]*key{}}
	w.pubKey = newKey(c.Seed, "publisher")
	w.genKey = newKey(c.Seed, "genesis")
	w.forger = newKey(c.Seed, "forger")
	w.locked = newKey(c.Seed, "locked")
	w.unlocked = newKey(c.Seed, "unlocked")
	nc := c.T.Range("clients", 2, 5)
	for i := 0; i < nc; i++ {
		w.clients = append(w.clients, newKey(c.Seed, string(rune('a'+i))))
	}
	for _, k := range append([]*key{&w.genKey, &w.locked, &w.unlocked, &w.forger}, clientPtrs(w.clients)...) {
		w.byAddr[k.m] = k
	}

	switch c.T.Pick("genesis-volume", 6, 2, opt.hugeWeight, opt.hugeWeight, opt.hugeWeight) {
	case 4:
		// a volume whose coin hours (genesis hours equal the volume) lie where fee x 1024, the per-kilobyte
		// priority of a transaction, reaches 2^64
		w.genCoins = uint64(1)<<uint(55+c.T.Int("genesis-exp", 3)) + uint64(c.T.Int("genesis-slack", 5000))*1000000
	case 0:
		w.genCoins = 100e12
	case 1:
		w.genCoins = 7000001
	case 2:
		w.genCoins = ^uint64(0)
	case 3:
		w.genCoins = ^uint64(0) - uint64(c.T.Int("genesis-slack", 5000))
	}
	w.genTime = bubbleEpoch - []uint64{0, 1, 3600, 86400 * 365, 86400 * 365 * 20}[c.T.Pick("genesis-age", 3, 1, 2, 2, 1)]

	burn := []uint32{10, 20, 100}
	size := []uint32{32768, 65536}
	if opt.smallSizes {
		size = []uint32{1024, 2048}
		// the node refuses limits below the user transaction limit, which is itself configurable down to 1024
		old := params.UserVerifyTxn
		params.UserVerifyTxn.MaxTransactionSize = 1024
		w.restoreParams = func() { params.UserVerifyTxn = old }
	}
	dec := []uint8{3, 6}
	w.mcfg = model.Config{
		PubKey:       w.pubKey.pub,
		GenesisAddr:  w.genKey.m,
		GenesisCoins: w.genCoins,
		GenesisTime:  w.genTime,
		Unconfirmed:  model.Params{BurnFactor: burn[c.T.Pick("u-burn", 4, 1, 1)], MaxTxnSize: size[c.T.Pick("u-size", 4, 1)], MaxDecimals: dec[c.T.Pick("u-dec", 3, 2)]},
		CreateBlock:  model.Params{BurnFactor: burn[c.T.Pick("c-burn", 4, 1, 1)], MaxTxnSize: size[c.T.Pick("c-size", 4, 1)], MaxDecimals: dec[c.T.Pick("c-dec", 3, 2)]},
		UserParams:   model.Params{BurnFactor: params.UserVerifyTxn.BurnFactor, MaxTxnSize: params.UserVerifyTxn.MaxTransactionSize, MaxDecimals: params.UserVerifyTxn.MaxDropletPrecision},
		Locked:       map[model.Addr]bool{w.locked.m: true},
	}
	w.mcfg.MaxBlockSize = w.mcfg.CreateBlock.MaxTxnSize * uint32(c.T.Range("block-size-mult", 1, 2))
	w.dist = params.Distribution{MaxCoinSupply: 1000, InitialUnlockedCount: 1, UnlockAddressRate: 1, UnlockTimeInterval: 1,
		Addresses: []string{w.unlocked.addr.String(), w.locked.addr.String()}}
	if err := w.dist.Validate(); err != nil {
		sim.Harnessf("distribution: %v", err)
	}
	for k, v := range map[string]int64{"clients": int64(nc), "gen_coins_class": int64(w.genCoins >> 40), "u_burn": int64(w.mcfg.Unconfirmed.BurnFactor),
		"c_burn": int64(w.mcfg.CreateBlock.BurnFactor), "block_size": int64(w.mcfg.MaxBlockSize), "followers": int64(followers)} {
		c.Knobs[k] = v
	}

	// The genesis signature followers are configured with: made by the
	// publisher key over the model's genesis header hash.
	gt := model.Txn{Out: []model.Out{{Addr: w.genKey.m, Coins: w.genCoins, Hours: w.genCoins}}}
	gh := model.Header{Time: w.genTime, Body: model.BodyHash([]model.Txn{gt})}
	w.genSig = cipher.MustSignHash(cipher.SHA256(gh.Hash()), w.pubKey.sec)

	if opt.before != nil {
		opt.before(w)
	}
	w.nodes = append(w.nodes, w.newNode(0, true))
	for i := 0; i < followers; i++ {
		w.nodes = append(w.nodes, w.newNode(i+1, false))
	}
	return w
}

type worldOpts struct {
	before     func(w *world) // runs after keys and parameters are drawn, before the nodes are created
	hugeWeight int
	// smallSizes: transaction and block size limits at / near their legal minimum (1024 bytes), so that the
	// legal minimum of the outgoing message length is small too
	smallSizes bool
}

func clientPtrs(ks []key) []*key {
	ps := make([]*key, len(ks))
	for i := range ks {
		ps[i] = &ks[i]
	}
	return ps
}

// ownedUnspents lists, in id order, the unspents of m whose owner key we hold.
func (w *world) ownedUnspents(m *model.Ledger) []model.Hash {
	var ids []model.Hash
	for id, u := range m.Unspent {
		if _, ok := w.byAddr[u.Addr]; ok {
			ids = append(ids, id)
		}
	}
	sort.Slice(ids, func(i, j int) bool { return bytes.Compare(ids[i][:], ids[j][:]) < 0 })
	return ids
}

// destinations a client may send to.
func (w *world) destination(t *sim.Tape) model.Addr {
	switch t.Pick("dest", 10, 2, 1, 1) {
	case 1:
		return w.locked.m
	case 2:
		return w.unlocked.m
	case 3:
		return w.genKey.m
	}
	return w.clients[t.Int("dest-client", len(w.clients))].m
}

// sign fills Length, Inner and the signatures of t with the owners' keys
// (honest signer: the real signing code with the seeded nonce source).
func (w *world) sign(m *model.Ledger, t *model.Txn) {
	t.Type = 0
	t.Sigs = make([]model.Sig, len(t.In))
	t.Length = uint32(t.Size())
	t.Inner = t.InnerHash()
	for i, in := range t.In {
		u, ok := m.Created[in]
		k := &w.forger
		if ok {
			if kk, ok2 := w.byAddr[u.Addr]; ok2 {
				k = kk
			}
		}
		t.Sigs[i] = model.Sig(cipher.MustSignHash(cipher.SHA256(model.AddHash(t.Inner, in)), k.sec))
	}
}

func (w *world) signWith(t *model.Txn, i int, k *key) {
	t.Sigs[i] = model.Sig(cipher.MustSignHash(cipher.SHA256(model.AddHash(t.Inner, t.In[i])), k.sec))
}

func bigU(v uint64) *big.Int { return new(big.Int).SetUint64(v) }

// mkSpend builds a transaction spending outputs of m.  style selects the fee
// and amount policy; the result is valid unless a soft-violating style or a
// conflict is drawn.
func (w *world) mkSpend(m *model.Ledger, fat bool) (model.Txn, bool) {
	t := w.c.T
	ids := w.ownedUnspents(m)
	if len(ids) == 0 {
		return model.Txn{}, false
	}
	// optionally avoid inputs already used by pooled transactions
	if t.Chance("avoid-conflict", 3, 4) {
		used := map[model.Hash]bool{}
		for _, e := range m.Pool {
			for _, in := range e.Txn.In {
				used[in] = true
			}
		}
		var free []model.Hash
		for _, id := range ids {
			if !used[id] {
				free = append(free, id)
			}
		}
		if len(free) > 0 {
			ids = free
		}
	}
	nIn := 1 + t.Pick("n-in", 12, 4, 2, 1)
	if nIn == 4 {
		// now and then a transaction with many inputs (as many as are available, up to 14)
		nIn = 5 + t.Int("n-in-many", 10)
	}
	if nIn > len(ids) {
		nIn = len(ids)
	}
	var tx model.Txn
	start := t.Int("in-start", len(ids))
	headTime := m.Head().Head.Time
	cin := new(big.Int)
	hin := new(big.Int)
	for i := 0; i < nIn; i++ {
		id := ids[(start+i)%len(ids)]
		u := m.Unspent[id]
		h, ov, _ := model.AccruedHours(u, headTime)
		if ov {
			h = new(big.Int)
		}
		if new(big.Int).Add(cin, bigU(u.Coins)).Cmp(bigU(^uint64(0))) > 0 || new(big.Int).Add(hin, h).Cmp(bigU(^uint64(0))) > 0 {
			break
		}
		tx.In = append(tx.In, id)
		cin.Add(cin, bigU(u.Coins))
		hin.Add(hin, h)
	}
	if len(tx.In) == 0 {
		return model.Txn{}, false
	}
	coins, hours := cin.Uint64(), hin.Uint64()

	// fee policy
	burn := uint64(m.Cfg.Unconfirmed.BurnFactor)
	var fee uint64
	switch t.Pick("fee", 10, 2, 1, 1, 2, 2, 1) {
	case 6: // around the point where fee x 1024 (the per-kilobyte priority) reaches 2^64
		b := []uint64{1 << 54, 1<<54 + 1, 1<<54 - 1, 18446744073709551615 / 1000, 18446744073709551615/1000 + 1, 1 << 55, 1<<54 + 1<<50, 1 << 53}[t.Int("fee-boundary", 8)]
		req := (hours + burn - 1) / burn
		if b >= req && b <= hours {
			fee = b + t.Draw("fee-boundary-delta", 1000)
		} else {
			fee = req
		}
	case 0: // exactly the required fee for the unconfirmed parameters
		fee = (hours + burn - 1) / burn
	case 1: // zero fee
		fee = 0
	case 2: // one below required
		fee = (hours + burn - 1) / burn
		if fee > 0 {
			fee--
		}
	case 3: // burn everything
		fee = hours
	case 4: // generous random
		if hours > 0 {
			fee = (hours+burn-1)/burn + t.Draw("fee-extra", hours-(hours+burn-1)/burn+1)
		}
	case 5: // required for the strictest factor in use (100)
		fee = (hours + 1) / 2
	}
	if fee > hours {
		fee = hours
	}
	hout := hours - fee

	nOut := 1 + t.Pick("n-out", 5, 4, 2, 1)
	if fat {
		nOut = 100 + t.Int("fat-outs", 500)
		if w.oversize {
			// beyond the largest transaction size limit in use (32768 / 65536 bytes; an output takes 37 bytes)
			nOut = 900 + t.Int("oversize-outs", 1000)
		}
	}
	if uint64(nOut) > coins {
		nOut = int(coins)
	}
	unit := uint64(1)
	if t.Chance("round-coins", 4, 5) && coins%1000 == 0 {
		unit = 1000
		if coins%1000000 == 0 && t.Bool("whole-coins") {
			unit = 1000000
		}
	}
	if uint64(nOut)*unit > coins {
		nOut = int(coins / unit)
		if nOut == 0 {
			nOut, unit = 1, 1
		}
	}
	remC, remH := coins, hout
	for i := 0; i < nOut; i++ {
		var c, h uint64
		left := uint64(nOut - i - 1)
		if i == nOut-1 {
			c, h = remC, remH
		} else {
			maxC := (remC - left*unit) / unit // in units, >= 1
			c = unit
			if maxC > 1 {
				switch t.Pick("coin-split", 3, 2, 1) {
				case 0:
					c = unit * (1 + t.Draw("coin-amt", maxC))
				case 1:
					c = unit
				case 2:
					c = unit * maxC
				}
				if c > remC-left*unit {
					c = remC - left*unit
				}
			}
			if remH > 0 {
				h = t.Draw("hour-amt", remH+1)
			}
			if fat {
				// spread evenly so that the many outputs all stay spendable later
				c = unit * (((remC - left*unit) / unit) / (left + 1))
				if c == 0 {
					c = unit
				}
				h = remH / (left + 1)
			}
		}
		remC -= c
		remH -= h
		dst := w.destination(t)
		if fat {
			// distinct outputs are required: vary hours/addresses deterministically
			dst = w.clients[i%len(w.clients)].m
		}
		tx.Out = append(tx.Out, model.Out{Addr: dst, Coins: c, Hours: h})
	}
	// avoid accidental duplicate outputs (same addr, coins, hours) by nudging hours
	seen := map[model.Out]bool{}
	for i := range tx.Out {
		for seen[tx.Out[i]] {
			if tx.Out[i].Hours > 0 {
				tx.Out[i].Hours--
			} else {
				// cannot separate: merge into the previous output instead
				break
			}
		}
		seen[tx.Out[i]] = true
	}
	// While the head is still the genesis block the node derives predicted
	// output ids with a zero source hash, so an output that repeats the genesis
	// output's (address, coins, hours) exactly is refused as an id collision.
	// That corner is outside every statement; the workload stays out of it.
	if m.Head().Head.BkSeq == 0 {
		g := m.Chain[0].Txns[0].Out[0]
		for i := range tx.Out {
			if tx.Out[i] == g && tx.Out[i].Hours > 0 {
				tx.Out[i].Hours--
			}
		}
	}
	w.sign(m, &tx)
	return tx, true
}

// mkSpendOf spends exactly the given unspent outputs into one output that carries all coins and `hours` hours.
func (w *world) mkSpendOf(m *model.Ledger, ins []model.Hash, hours uint64) (model.Txn, bool) {
	return w.mkSpendTo(m, ins, hours, w.destination(w.c.T))
}

// mkSpendTo is mkSpendOf with a given destination.
func (w *world) mkSpendTo(m *model.Ledger, ins []model.Hash, hours uint64, dst model.Addr) (model.Txn, bool) {
	var tx model.Txn
	var coins uint64
	for _, id := range ins {
		u, ok := m.Unspent[id]
		if !ok {
			return model.Txn{}, false
		}
		if coins+u.Coins < coins {
			return model.Txn{}, false
		}
		coins += u.Coins
		tx.In = append(tx.In, id)
	}
	if coins == 0 {
		return model.Txn{}, false
	}
	tx.Out = []model.Out{{Addr: dst, Coins: coins, Hours: hours}}
	w.sign(m, &tx)
	return tx, true
}

// mkFanOut spends the owned unspent output with the most coins into n outputs of about equal size, paying the
// required fee, so that many independent outputs exist afterwards.
func (w *world) mkFanOut(m *model.Ledger, n int) (model.Txn, bool) {
	var best model.Hash
	var bc uint64
	for _, id := range w.ownedUnspents(m) {
		u := m.Unspent[id]
		if u.Addr != w.locked.m && u.Coins > bc {
			best, bc = id, u.Coins
		}
	}
	unit := uint64(1000000)
	if bc < uint64(n)*unit {
		return model.Txn{}, false
	}
	u := m.Unspent[best]
	h, ov, inter := model.AccruedHours(u, m.Head().Head.Time)
	if ov || inter || !h.IsUint64() {
		return model.Txn{}, false
	}
	hours := h.Uint64()
	burn := uint64(m.Cfg.Unconfirmed.BurnFactor)
	fee := (hours + burn - 1) / burn
	if fee == 0 {
		return model.Txn{}, false
	}
	rest := hours - fee
	tx := model.Txn{In: []model.Hash{best}}
	per := bc / uint64(n) / unit * unit
	for i := 0; i < n; i++ {
		c := per
		if i == n-1 {
			c = bc - per*uint64(n-1)
		}
		hh := rest / uint64(n)
		if i == n-1 {
			hh = rest - rest/uint64(n)*uint64(n-1)
		}
		// distinct (address, coins, hours) triples: vary the hours a little
		if hh > uint64(i) {
			hh -= uint64(i)
		}
		tx.Out = append(tx.Out, model.Out{Addr: w.clients[i%len(w.clients)].m, Coins: c, Hours: hh})
	}
	w.sign(m, &tx)
	return tx, true
}

// hasOverflowed: some owned unspent output's accrued hours at the head time exceed 2^64-1.
func (w *world) hasOverflowed(m *model.Ledger) bool {
	headTime := m.Head().Head.Time
	for _, id := range w.ownedUnspents(m) {
		if _, over, inter := model.AccruedHours(m.Unspent[id], headTime); over && !inter {
			return true
		}
	}
	return false
}

// mkOverflowCombo: one owned output whose accrued hours at the head time exceed 2^64-1 and one ordinary owned
// output, spent together.
func (w *world) mkOverflowCombo(m *model.Ledger) (model.Txn, bool) {
	t := w.c.T
	headTime := m.Head().Head.Time
	var ov, ord []model.Hash
	ordHours := map[model.Hash]uint64{}
	for _, id := range w.ownedUnspents(m) {
		h, over, inter := model.AccruedHours(m.Unspent[id], headTime)
		switch {
		case inter:
		case over:
			ov = append(ov, id)
		case h.IsUint64() && h.Uint64() >= 2 && h.Uint64() < 1<<62:
			ord = append(ord, id)
			ordHours[id] = h.Uint64()
		}
	}
	if len(ov) == 0 || len(ord) == 0 {
		return model.Txn{}, false
	}
	a, b := ord[t.Int("combo-ord", len(ord))], ov[t.Int("combo-ov", len(ov))]
	h := ordHours[a]
	hours := []uint64{h, h / 2, h + 1, 2 * h, h + h/2}[t.Pick("combo-hours", 2, 1, 2, 2, 1)]
	ins := []model.Hash{a, b}
	if t.Bool("combo-overflow-first") {
		ins = []model.Hash{b, a}
	}
	return w.mkSpendOf(m, ins, hours)
}

// tieBurst builds up to max one-input-one-output transactions that all pay
// exactly the same fee and have the same size, i.e. tie exactly in fee per
// kilobyte, from unspents no pooled transaction uses yet.
func (w *world) tieBurst(m *model.Ledger, max int) []model.Txn {
	used := map[model.Hash]bool{}
	for _, e := range m.Pool {
		for _, in := range e.Txn.In {
			used[in] = true
		}
	}
	type cand struct {
		id model.Hash
		h  uint64
		u  model.Ux
	}
	var cs []cand
	headTime := m.Head().Head.Time
	for _, id := range w.ownedUnspents(m) {
		if used[id] {
			continue
		}
		u := m.Unspent[id]
		if u.Addr == w.locked.m {
			continue
		}
		h, ov, inter := model.AccruedHours(u, headTime)
		if ov || inter || h.Sign() == 0 {
			continue
		}
		cs = append(cs, cand{id, h.Uint64(), u})
	}
	if len(cs) < 2 {
		return nil
	}
	sort.SliceStable(cs, func(i, j int) bool { return cs[i].h > cs[j].h })
	burn := uint64(m.Cfg.Unconfirmed.BurnFactor)
	if b := uint64(m.Cfg.CreateBlock.BurnFactor); b < burn {
		burn = b // the smallest factor demands the largest fee
	}
	// start somewhere in the list so that different bursts use different fee levels
	cs = cs[w.c.T.Int("tie-start", (len(cs)+1)/2):]
	fee := (cs[0].h + burn - 1) / burn
	var out []model.Txn
	for _, c := range cs {
		if len(out) >= max || c.h < fee {
			break
		}
		unit := uint64(1000)
		if c.u.Coins%unit != 0 {
			continue
		}
		tx := model.Txn{In: []model.Hash{c.id}, Out: []model.Out{{Addr: w.clients[len(out)%len(w.clients)].m, Coins: c.u.Coins, Hours: c.h - fee}}}
		w.sign(m, &tx)
		out = append(out, tx)
	}
	return out
}
