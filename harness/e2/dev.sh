#!/bin/bash
# dev.sh <max_runs> [seed] : build e2 and run one worker (development helper)
export GOFLAGS=-mod=mod GOPROXY=off GOSUMDB=off GOTOOLCHAIN=local
cd /verif/harness && go1.26.8 test -c -tags verif -race -gcflags=all=-d=checkptr=0 -o /verif/.build/e2-dev.test ./e2 || exit 2
D=/dev/shm/e2dev; mkdir -p $D; cd $D; rm -rf race.* out.json scratch
cat > job.json <<EOJ
{"property":"${PROP:-C32}","profile":"default","tier":"quick","seed":${2:-1},"first":${3:-0},"stride":${STRIDE:-1},"max_runs":$1,"budget_s":120,"out":"$D/out.json","scratch":"$D/scratch","shrink_budget":0,"log_dump":true,"known":${KNOWN:-[]}}
EOJ
env GOMAXPROCS=1 GODEBUG=asyncpreemptoff=1 GORACE="log_path=$D/race halt_on_error=0 exitcode=0" VERIF_RACE_LOG=$D/race VERIF_JOB=$D/job.json /verif/.build/e2-dev.test -test.run '^TestWorker$' -test.timeout ${TMO:-300s} > $D/stdout.txt 2>&1
echo "exit=$? lines=$(wc -l < $D/stdout.txt)"
python3 /verif/harness/e2/devsum.py "$DETAIL" "$TAIL"
