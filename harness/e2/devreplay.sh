#!/bin/bash
# devreplay.sh : replay found[0] of /dev/shm/e2dev/out.json, print log (development helper)
D=/dev/shm/e2dev; cd $D
python3 - <<'EOP'
import json
s=json.load(open('/dev/shm/e2dev/out.json'))
f=s['found'][0]
json.dump(dict(property="C22",profile="default",tier="quick",seed=0,first=0,stride=1,max_runs=1,budget_s=0,out="/dev/shm/e2dev/rep.json",scratch="/dev/shm/e2dev/scratch",replay_tape=f['tape'] or [0],replay_seed=f['run_seed'],shrink_budget=0),open('/dev/shm/e2dev/repjob.json','w'))
EOP
rm -f rep.json
env GOMAXPROCS=1 GODEBUG=asyncpreemptoff=1 GORACE="log_path=$D/race halt_on_error=0 exitcode=0" VERIF_RACE_LOG=$D/race VERIF_JOB=$D/repjob.json /verif/.build/e2-dev.test -test.run '^TestWorker$' -test.timeout 300s > $D/repstdout.txt 2>&1
echo "exit=$?"
python3 - <<'EOP'
import json
s=json.load(open('/dev/shm/e2dev/rep.json'))
print(s.get('harness_error'))
for f in s['found']: print(f['violation']['class'], '|', f['violation']['signature'], '|', f['log_hash'])
log=s.get('replay_log') or []
out=[]
for l in log:
    if 'idle advance' in l and out and 'idle advance' in out[-1]: continue
    out.append(l)
print('\n'.join(out[-80:]))
EOP
