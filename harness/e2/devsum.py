import json,sys
s=json.load(open('/dev/shm/e2dev/out.json'))
print({k:s[k] for k in ('runs','steps','sim_seconds','wall_s','harness_error','tainted','next_index') if k in s})
seen=set()
for f in s['found']:
    k=(f['violation']['class'],f['violation']['signature'])
    if k in seen: continue
    seen.add(k)
    print(k[0],'|',k[1]); print('   ',f['violation']['detail'][:int(sys.argv[1]) if len(sys.argv)>1 else 600]); print('\n'.join(f['log_tail'][-int(sys.argv[2]) if len(sys.argv)>2 else -6:]))
