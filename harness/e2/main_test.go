package e2

import (
	"testing"

	"verifsim/sim"
)

func TestWorker(t *testing.T) {
	sim.WorkerMain(t, map[string]sim.Engine{
		"C22": {Run: runPool, Nontrivial: func(c *sim.Ctx) bool { return c.Counters["probe.stream_messages_delivered"] >= 3 && c.Counters["fault.stream_cuts"] >= 1 }},
		"C32": {Run: runPool, Nontrivial: func(c *sim.Ctx) bool {
			return c.Counters["probe.call_succeeded"] >= 2 && c.Counters["probe.connect_callbacks"] >= 1
		}},
	})
}
