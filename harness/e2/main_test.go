package e2

import (
	"fmt"
	"os"
	"runtime"
	"testing"
	"time"

	"verifsim/sim"
)

// watchdog is the harness safety net of DESIGN.md 4.2: it runs outside every bubble on the real clock and ends the
// process with status 2 (never a violation) when the controller has made no progress for a minute, which means that
// the bubble cannot become quiescent (a goroutine of the code under test busy-waits or blocks on a sync.Mutex whose
// holder is parked).
func watchdog() {
	last, since := uint64(0), time.Now()
	for {
		time.Sleep(5 * time.Second)
		p, active := progressNow()
		if !active || p != last {
			last, since = p, time.Now()
			continue
		}
		if time.Since(since) > 60*time.Second {
			buf := make([]byte, 1<<20)
			n := runtime.Stack(buf, true)
			fmt.Fprintf(os.Stderr, "HARNESS-WATCHDOG: no scheduling progress for 60 s of real time; goroutines:\n%s\n", buf[:n])
			os.Exit(2)
		}
	}
}

func TestWorker(t *testing.T) {
	go watchdog()
	sim.WorkerMain(t, map[string]sim.Engine{
		"C22": {Run: runPool, Nontrivial: func(c *sim.Ctx) bool {
			return c.Counters["probe.stream_messages_delivered"] >= 3 && c.Counters["fault.stream_cuts"] >= 1
		}},
		"C32": {Run: runPool, Nontrivial: func(c *sim.Ctx) bool {
			return c.Counters["probe.call_succeeded"] >= 2 && c.Counters["probe.connect_callbacks"] >= 1
		}},
	})
}
