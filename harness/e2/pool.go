package e2

import (
	"encoding/binary"
	"errors"
	"fmt"
	"net"
	"os"
	"runtime"
	"sort"
	"strings"
	"testing/synctest"
	"time"

	"github.com/skycoin/skycoin/src/daemon/gnet"
	"github.com/skycoin/skycoin/src/daemon/strand"
	"github.com/skycoin/skycoin/src/util/logging"

	"verifsim/sim"
)

// ---------------------------------------------------------------------------
// message type spoken on the simulated wire

// SimMsg is the only registered message: who sent it, a per-sender sequence
// number, a flag asking the receiving handler to fail, and padding.
type SimMsg struct {
	From uint32
	Seq  uint32
	Bad  uint8
	Pad  []byte
}

func (m *SimMsg) EncodeSize() uint64 { return uint64(4 + 4 + 1 + 4 + len(m.Pad)) }
func (m *SimMsg) Encode(b []byte) error {
	if uint64(len(b)) < m.EncodeSize() {
		return errors.New("short buffer")
	}
	binary.LittleEndian.PutUint32(b[0:], m.From)
	binary.LittleEndian.PutUint32(b[4:], m.Seq)
	b[8] = m.Bad
	binary.LittleEndian.PutUint32(b[9:], uint32(len(m.Pad)))
	copy(b[13:], m.Pad)
	return nil
}
func (m *SimMsg) Decode(b []byte) (uint64, error) {
	if len(b) < 13 {
		return 0, errors.New("short message")
	}
	m.From = binary.LittleEndian.Uint32(b[0:])
	m.Seq = binary.LittleEndian.Uint32(b[4:])
	m.Bad = b[8]
	n := int(binary.LittleEndian.Uint32(b[9:]))
	if n < 0 || 13+n > len(b) {
		return 0, errors.New("short pad")
	}
	m.Pad = append([]byte{}, b[13:13+n]...)
	return uint64(13 + n), nil
}

var errHandlerRefused = errors.New("handler refused message")

// padByte is the content every padding byte must have: a message whose bytes were overwritten after it was
// framed (or that was assembled from the wrong stretch of the stream) does not satisfy it.
func padByte(from, seq uint32, i int) byte { return byte(seq*31 + uint32(i)*7 + from) }

func makePad(from, seq uint32, n int) []byte {
	p := make([]byte, n)
	for i := range p {
		p[i] = padByte(from, seq, i)
	}
	return p
}

func (m *SimMsg) Handle(ctx *gnet.MessageContext, state interface{}) error {
	Yield("handle")
	for i, b := range m.Pad {
		if b != padByte(m.From, m.Seq, i) {
			logEventR(evCorrupt, ctx.Addr, ctx.ConnID, uint64(m.From), uint64(m.Seq), fmt.Sprintf("padding byte %d of %d is %#x, sent %#x", i, len(m.Pad), b, padByte(m.From, m.Seq, i)))
			break
		}
	}
	logEvent(evDelivered, ctx.Addr, ctx.ConnID, uint64(m.From), uint64(m.Seq))
	if m.Bad != 0 {
		return errHandlerRefused
	}
	return nil
}

func frame(m *SimMsg) []byte {
	body := make([]byte, m.EncodeSize())
	_ = m.Encode(body)
	out := make([]byte, 8+len(body))
	binary.LittleEndian.PutUint32(out, uint32(4+len(body)))
	copy(out[4:], "SIMM")
	copy(out[8:], body)
	return out
}

// ---------------------------------------------------------------------------
// event log shared by callbacks (strand goroutine, connection goroutines): a
// fixed array written only inside norace functions, so that recording an
// event adds no synchronisation between the goroutines that record.

const (
	evConnect = iota
	evDisconnect
	evConnectFail
	evDelivered
	evCorrupt
)

type event struct {
	kind                  int
	addr                  string
	id                    uint64
	a, b                  uint64
	afterShutdownReturned bool
	reason                string
}

var (
	events  [8192]event
	nEvents int

	shutdownCalled, shutdownReturned, runReturned bool
	runErr                                        error
	actorsDone                                    [64]bool
	nActorsG                                      int
)

//go:norace
func logEvent(kind int, addr string, id, a, b uint64) {
	if nEvents < len(events) {
		events[nEvents] = event{kind: kind, addr: addr, id: id, a: a, b: b, afterShutdownReturned: shutdownReturned}
		nEvents++
	}
}

//go:norace
func logEventR(kind int, addr string, id, a, b uint64, reason string) {
	if nEvents < len(events) {
		events[nEvents] = event{kind: kind, addr: addr, id: id, a: a, b: b, afterShutdownReturned: shutdownReturned, reason: reason}
		nEvents++
	}
}

// deliveredFor counts the messages delivered so far from addr, and whether that connection has been disconnected.
//
//go:norace
func deliveredFor(addr string) (n int, disconnected bool) {
	n, disconnected, _ = deliveredForR(addr)
	return
}

//go:norace
func deliveredForR(addr string) (n int, disconnected bool, reason string) {
	for i := 0; i < nEvents; i++ {
		if events[i].addr != addr {
			continue
		}
		switch events[i].kind {
		case evDelivered:
			n++
		case evDisconnect, evConnectFail:
			if !disconnected {
				reason = events[i].reason
			}
			disconnected = true
		}
	}
	return
}

//go:norace
func worldReset() {
	nEvents = 0
	shutdownCalled, shutdownReturned, runReturned = false, false, false
	runErr = nil
	actorsDone = [64]bool{}
	nActorsG = 0
	dialRefused, peerCloses, peerAborts, peerStalls, badMsgs, garbageMsgs, streamCuts, listenFailed = 0, 0, 0, 0, 0, 0, 0, 0
}

var (
	progressCtr uint64
	runActive   bool
)

//go:norace
func progress() { progressCtr++ }

//go:norace
func setActive(a bool) { runActive = a; progressCtr++ }

//go:norace
func progressNow() (uint64, bool) { return progressCtr, runActive }

//go:norace
func bump(p *int) { *p++ }

//go:norace
func readInt(p *int) int { return *p }

var dialRefused, peerCloses, peerAborts, peerStalls, badMsgs, garbageMsgs, streamCuts, listenFailed int

//go:norace
func setFlag(p *bool) { *p = true }

//go:norace
func getFlag(p *bool) bool { return *p }

//go:norace
func setRunErr(e error) { runErr = e; runReturned = true }

//go:norace
func snapshotEvents() []event { return append([]event{}, events[:nEvents]...) }

// ---------------------------------------------------------------------------
// scenario

type opKind int

const (
	opSend opKind = iota
	opBroadcast
	opDisconnect
	opGetConns
	opGetConn
	opSize
	opPings
	opStale
	opConnect
	opDrain
	numOps
)

var opNames = []string{"send", "broadcast", "disconnect", "getconns", "getconn", "size", "pings", "stale", "connect", "drain"}

type op struct {
	kind  opKind
	addr  string
	addrs []string
	pad   int
}

type opResult struct {
	op                   op
	err                  error
	n                    int
	startedAfterShutdown bool // Shutdown had returned before the call started
	detail               string
}

const (
	psWrite      = iota // write n messages in one burst
	psWriteSplit        // write a message in two pieces with a yield in between
	psRead              // read whatever the pool wrote
	psIdle              // do nothing (stall)
	psBadMsg            // write a message the handler refuses
	psGarbage           // write a frame with an unknown message id
	psClose
	psAbort
	// framing profile
	psStream    // n messages with padding, written as one byte string cut into pieces at arbitrary offsets
	psBadLenLow // length prefix below the minimum
	psBadLenBig // length prefix above the configured maximum (including values within 4 of 2^32)
	psShortBody // known id, body too short to decode
	psTrailing  // known id, body followed by extra bytes inside the frame
	psHalfFrame // half a frame, then EOF
	psGoodAfter // one more well-formed message (after a bad frame it must not be delivered)
	psCleanClose
)

type peerStep struct {
	kind     int
	n        int
	cuts     []int // psStream: relative cut positions in per-mille of the byte string (or, with boundary set, frame*16 + offset+3)
	pad      []int // psStream: padding length per message
	boundary bool
}

type connPlan struct {
	fail   bool
	script []peerStep
	outCap int
}

type scenario struct {
	cfg          gnet.Config
	callers      [][]op
	incoming     []string   // remote addresses of incoming connections, in dial order
	plans        []connPlan // i-th created connection (incoming or outgoing) gets plans[i]
	shutdownWait int
	earlyStart   bool // actors may run before the pool is listening
	decisions    int
	framing      bool // C22 profile
	listenFails  bool // the listen call of Run fails (port in use): Run returns an error, Shutdown must still return
}

var (
	inAddrs  = []string{"10.0.1.1:6001", "10.0.1.2:6001", "10.0.1.3:6001", "10.0.1.1:6002"}
	outAddrs = []string{"10.0.2.1:7000", "10.0.2.2:7000", "10.0.2.3:7000"}
)

// genFraming is the scenario of the C22 profile: well-behaved peers stream long message sequences cut at arbitrary
// offsets into a pool whose handler is scheduled like every other goroutine (so decoded messages queue up behind
// it), optionally ending in one malformed frame; nobody disconnects or shuts down until everything sent has been
// delivered or the connection is gone.
func genFraming(c *sim.Ctx) *scenario {
	t := c.T
	sc := &scenario{framing: true}
	cfg := gnet.NewConfig()
	cfg.Address = "10.0.0.1"
	cfg.Port = 6000
	cfg.MaxOutgoingConnections = 1
	cfg.MaxIncomingConnections = 3
	cfg.MaxConnections = 4
	cfg.ConnectionWriteQueueSize = 4
	cfg.SendResultsSize = 16
	cfg.ReadTimeout = 0
	cfg.WriteTimeout = 0
	cfg.MaxOutgoingMessageLength = 4096
	cfg.MaxIncomingMessageLength = []int{4096, 65536}[t.Pick("f-maxin", 2, 1)]
	sc.cfg = cfg
	big := cfg.MaxIncomingMessageLength > 4096
	// one observer that never changes anything
	sc.callers = [][]op{{{kind: opSize}, {kind: opGetConns}, {kind: opDrain}}}
	nIn := t.Range("f-conns", 1, 2)
	for i := 0; i < nIn; i++ {
		sc.incoming = append(sc.incoming, inAddrs[i])
		var p connPlan
		n := t.Range("f-steps", 2, 8)
		for j := 0; j < n; j++ {
			st := peerStep{kind: psStream, n: t.Range("f-burst", 1, 8)}
			for k := 0; k < st.n; k++ {
				pad := []int{0, 3, 40, 300, 1200}[t.Pick("f-pad", 3, 2, 3, 2, 1)]
				if big && t.Chance("f-bigpad", 1, 6) {
					pad = 17000 + t.Int("f-bigpad-len", 40000) // larger than any buffer-size threshold a few KiB wide
				}
				st.pad = append(st.pad, pad)
			}
			switch t.Pick("f-cutstyle", 2, 3, 2, 1, 3) {
			case 4: // cuts placed relative to frame boundaries: a few bytes before / into the next frame's length prefix and id
				st.boundary = true
				for k := 0; k < 1+t.Int("f-nbcuts", 4); k++ {
					st.cuts = append(st.cuts, t.Int("f-bcut-frame", 8)*16+t.Int("f-bcut-off", 12)) // frame index * 16 + (offset+3)
				}
			case 1: // a few random cuts
				for k := 0; k < 1+t.Int("f-ncuts", 5); k++ {
					st.cuts = append(st.cuts, 1+t.Int("f-cut", 999))
				}
				sort.Ints(st.cuts)
			case 2: // many small pieces
				for pm := 1 + t.Int("f-first", 40); pm < 1000; pm += 1 + t.Int("f-piece", 120) {
					st.cuts = append(st.cuts, pm)
				}
			case 3: // one cut near the end (inside the last frame)
				st.cuts = []int{990 - t.Int("f-tail", 200)}
			}
			p.script = append(p.script, st)
		}
		switch t.Pick("f-tail-kind", 6, 1, 1, 1, 1, 1, 1, 1, 3) {
		case 8: // the peer has said everything and hangs up: everything it sent must still be delivered
			p.script = append(p.script, peerStep{kind: psCleanClose})
		case 1:
			p.script = append(p.script, peerStep{kind: psGarbage}, peerStep{kind: psGoodAfter})
		case 2:
			p.script = append(p.script, peerStep{kind: psBadLenLow, n: t.Int("f-low", 4)}, peerStep{kind: psGoodAfter})
		case 3:
			p.script = append(p.script, peerStep{kind: psBadLenBig, n: t.Int("f-big", 6)}, peerStep{kind: psGoodAfter})
		case 4:
			p.script = append(p.script, peerStep{kind: psShortBody}, peerStep{kind: psGoodAfter})
		case 5:
			p.script = append(p.script, peerStep{kind: psTrailing}, peerStep{kind: psGoodAfter})
		case 6:
			p.script = append(p.script, peerStep{kind: psHalfFrame})
		case 7:
			p.script = append(p.script, peerStep{kind: psBadMsg, n: 1}, peerStep{kind: psGoodAfter})
		}
		sc.plans = append(sc.plans, p)
	}
	sc.decisions = 200 + t.Int("decisions", 400)
	if c.Tier == "thorough" {
		sc.decisions += 400
	}
	return sc
}

func genScenario(c *sim.Ctx) *scenario {
	if c.Property == "C22" {
		return genFraming(c)
	}
	t := c.T
	sc := &scenario{}
	cfg := gnet.NewConfig()
	cfg.Address = "10.0.0.1"
	cfg.Port = 6000
	cfg.MaxOutgoingConnections = t.Range("cfg.maxout", 1, 3)
	cfg.MaxIncomingConnections = t.Range("cfg.maxin", 1, 3)
	cfg.MaxConnections = cfg.MaxOutgoingConnections + cfg.MaxIncomingConnections
	cfg.MaxDefaultPeerOutgoingConnections = t.Range("cfg.maxdef", 1, 2)
	cfg.ConnectionWriteQueueSize = []int{4, 1, 2, 16}[t.Int("cfg.wq", 4)]
	cfg.SendResultsSize = []int{16, 1, 2, 64}[t.Int("cfg.sr", 4)]
	cfg.ReadTimeout = []time.Duration{3 * time.Second, 0, time.Second}[t.Int("cfg.rt", 3)]
	cfg.WriteTimeout = []time.Duration{2 * time.Second, 0, 500 * time.Millisecond}[t.Int("cfg.wt", 3)]
	cfg.DialTimeout = time.Second
	cfg.MaxOutgoingMessageLength = 4096
	cfg.MaxIncomingMessageLength = 4096
	cfg.DefaultConnections = outAddrs[:t.Range("cfg.ndef", 0, 2)]
	sc.cfg = cfg
	c.Knobs["maxout"] = int64(cfg.MaxOutgoingConnections)
	c.Knobs["maxin"] = int64(cfg.MaxIncomingConnections)
	c.Knobs["wq"] = int64(cfg.ConnectionWriteQueueSize)
	c.Knobs["sr"] = int64(cfg.SendResultsSize)
	c.Knobs["rt_ms"] = int64(cfg.ReadTimeout / time.Millisecond)
	c.Knobs["wt_ms"] = int64(cfg.WriteTimeout / time.Millisecond)

	all := append(append([]string{}, inAddrs...), outAddrs...)
	nCallers := t.Range("callers", 2, 4)
	for i := 0; i < nCallers; i++ {
		n := t.Range("nops", 2, 7)
		var ops []op
		for j := 0; j < n; j++ {
			k := opKind(t.Pick("op", 5, 3, 3, 1, 1, 1, 1, 1, 4, 1))
			o := op{kind: k}
			switch k {
			case opSend, opDisconnect, opGetConn:
				o.addr = all[t.Int("addr", len(all))]
				o.pad = []int{0, 40, 900}[t.Int("pad", 3)]
			case opBroadcast:
				m := t.Range("naddrs", 0, 3)
				for x := 0; x < m; x++ {
					o.addrs = append(o.addrs, all[t.Int("addr", len(all))])
				}
			case opConnect:
				o.addr = outAddrs[t.Int("oaddr", len(outAddrs))]
			}
			ops = append(ops, o)
		}
		sc.callers = append(sc.callers, ops)
	}
	nIn := t.Range("nin", 0, 4)
	for i := 0; i < nIn; i++ {
		sc.incoming = append(sc.incoming, inAddrs[t.Int("iaddr", len(inAddrs))])
	}
	for i := 0; i < 10; i++ {
		p := connPlan{outCap: []int{0, 64, 600}[t.Int("outcap", 3)]}
		p.fail = t.Chance("dialfail", 1, 6)
		n := t.Range("nsteps", 0, 6)
		for j := 0; j < n; j++ {
			k := t.Pick("pstep", 4, 2, 4, 2, 1, 1, 1, 1)
			p.script = append(p.script, peerStep{kind: k, n: t.Range("burst", 1, 4)})
		}
		sc.plans = append(sc.plans, p)
	}
	sc.shutdownWait = t.Range("sdwait", 0, 30)
	sc.earlyStart = t.Chance("early", 1, 8)
	sc.listenFails = t.Chance("listen-fails", 1, 25)
	if sc.listenFails {
		sc.earlyStart = true // nothing will ever be accepted: the actors must not wait for it
	}
	sc.decisions = 150 + t.Int("decisions", 250)
	if c.Tier == "thorough" {
		sc.decisions += 300
	}
	return sc
}

// ---------------------------------------------------------------------------
// world: everything of one run

type world struct {
	c    *sim.Ctx
	sc   *scenario
	pool *gnet.ConnectionPool
	ln   *simListener

	connsMu  chan struct{} // 1-slot semaphore guarding conns / nextPlan (held for a few instructions only)
	conns    []*simConn
	peers    []*peerState
	results  [][]opResult
	accepted int
}

type peerState struct {
	goodSent   int    // well-formed messages written before any malformed frame (framing profile)
	bad        string // disconnect reason the first malformed frame must produce ("" = none sent)
	cleanClose bool   // the peer closed after its last well-formed message
	conn       *simConn
	sent       uint32
	rx         []byte
	frames     int
	garbled    string
	done       bool
	gotEOF     bool
}

func (w *world) lock()   { w.connsMu <- struct{}{} }
func (w *world) unlock() { <-w.connsMu }

// newConn creates the next simulated connection and its peer (not yet started).
func (w *world) newConn(local, remote string) (*simConn, *peerState, connPlan) {
	w.lock()
	defer w.unlock()
	i := len(w.conns)
	plan := connPlan{}
	if i < len(w.sc.plans) {
		plan = w.sc.plans[i]
	}
	c := newSimConn(i, local, remote, plan.outCap)
	p := &peerState{conn: c}
	w.conns = append(w.conns, c)
	w.peers = append(w.peers, p)
	return c, p, plan
}

//go:norace
func allocActor() int {
	ix := nActorsG
	nActorsG++
	return ix
}

//go:norace
func actorCount() int { return nActorsG }

func (w *world) startActor(name string, f func()) {
	ix := allocActor()
	go func() {
		Register(name)
		Yield("start")
		f()
		setFlag(&actorsDone[ix])
	}()
}

func (w *world) runPeer(p *peerState, script []peerStep) {
	c := p.conn
	from := uint32(1000 + c.id)
	for _, st := range script {
		Yield("peer")
		switch st.kind {
		case psWrite:
			var b []byte
			for i := 0; i < st.n; i++ {
				p.sent++
				b = append(b, frame(&SimMsg{From: from, Seq: p.sent})...)
			}
			c.peerWrite(b)
		case psWriteSplit:
			p.sent++
			b := frame(&SimMsg{From: from, Seq: p.sent, Pad: make([]byte, 20*st.n)})
			cut := 1 + (st.n*7)%(len(b)-1)
			c.peerWrite(b[:cut])
			Yield("peer.split")
			c.peerWrite(b[cut:])
		case psRead:
			p.absorb(c.peerRead())
		case psIdle:
			bump(&peerStalls)
		case psBadMsg:
			bump(&badMsgs)
			if p.bad == "" {
				p.bad = errHandlerRefused.Error()
			}
			p.sent++
			c.peerWrite(frame(&SimMsg{From: from, Seq: p.sent, Bad: 1}))
		case psGarbage:
			bump(&garbageMsgs)
			if p.bad == "" {
				p.bad = "Unknown message ID"
			}
			b := frame(&SimMsg{From: from, Seq: 0})
			copy(b[4:], "XXXX")
			c.peerWrite(b)
		case psStream:
			var b []byte
			for i := 0; i < st.n; i++ {
				p.sent++
				b = append(b, frame(&SimMsg{From: from, Seq: p.sent, Pad: makePad(from, p.sent, st.pad[i%len(st.pad)])})...)
			}
			p.goodSent = int(p.sent)
			last := 0
			cuts := st.cuts
			if st.boundary {
				// absolute positions around the ends of the frames of this burst
				var ends []int
				pos := 0
				for i := 0; i < st.n; i++ {
					pos += 8 + 13 + st.pad[i%len(st.pad)]
					ends = append(ends, pos)
				}
				var abs []int
				for _, cdesc := range st.cuts {
					e := ends[(cdesc/16)%len(ends)]
					abs = append(abs, e+cdesc%16-3)
				}
				sort.Ints(abs)
				cuts = nil
				for _, a := range abs {
					cuts = append(cuts, -a) // negative: absolute
				}
			}
			for _, pm := range cuts {
				at := len(b) * pm / 1000
				if pm < 0 {
					at = -pm
				}
				if at <= last || at >= len(b) {
					continue
				}
				c.peerWrite(b[last:at])
				last = at
				bump(&streamCuts)
				Yield("peer.cut")
			}
			c.peerWrite(b[last:])
		case psBadLenLow:
			p.bad = "Invalid message length"
			c.peerWrite([]byte{byte(st.n % 4), 0, 0, 0, 'S', 'I', 'M', 'M', 0})
		case psBadLenBig:
			p.bad = "Invalid message length"
			v := []uint32{uint32(w.sc.cfg.MaxIncomingMessageLength) + 1, 0xFFFFFFFC, 0xFFFFFFFF, 0x7FFFFFFF, 0x80000000, 1 << 20}[st.n%6]
			h := make([]byte, 4)
			binary.LittleEndian.PutUint32(h, v)
			c.peerWrite(append(h, 'S', 'I', 'M', 'M', 1, 2, 3, 4, 5))
		case psShortBody:
			p.bad = "Malformed message body"
			b := frame(&SimMsg{From: from, Seq: p.sent + 1})
			b = b[:len(b)-3]
			binary.LittleEndian.PutUint32(b, uint32(len(b)-4))
			c.peerWrite(b)
		case psTrailing:
			p.bad = "Message data did not fully decode to a message object"
			b := append(frame(&SimMsg{From: from, Seq: p.sent + 1}), 9, 9)
			binary.LittleEndian.PutUint32(b, uint32(len(b)-4))
			c.peerWrite(b)
		case psHalfFrame:
			p.bad = "EOF"
			b := frame(&SimMsg{From: from, Seq: p.sent + 1, Pad: makePad(from, p.sent+1, 40)})
			c.peerWrite(b[:len(b)/2])
			Yield("peer.halfframe")
			c.peerClose(false)
			bump(&peerCloses)
			return
		case psGoodAfter:
			c.peerWrite(frame(&SimMsg{From: from, Seq: p.sent + 1}))
		case psCleanClose:
			p.cleanClose = true
			c.peerClose(false)
			bump(&peerCloses)
			return
		case psClose:
			p.absorb(c.peerRead())
			c.peerClose(false)
			bump(&peerCloses)
			return
		case psAbort:
			c.peerClose(true)
			bump(&peerAborts)
			return
		}
	}
}

// absorb parses what the pool wrote to this peer: every byte must belong to a
// well-formed frame of a registered message (a torn or interleaved frame is
// the visible symptom of two goroutines writing one connection).
func (p *peerState) absorb(b []byte) {
	p.rx = append(p.rx, b...)
	for len(p.rx) >= 4 && p.garbled == "" {
		n := int(binary.LittleEndian.Uint32(p.rx))
		if n < 4+13 || n > 8192 {
			p.garbled = fmt.Sprintf("frame length %d", n)
			return
		}
		if len(p.rx) < 4+n {
			return
		}
		body := p.rx[4 : 4+n]
		if string(body[:4]) != "SIMM" {
			p.garbled = fmt.Sprintf("message id %q", body[:4])
			return
		}
		var m SimMsg
		if k, err := m.Decode(body[4:]); err != nil || int(k) != n-4 {
			p.garbled = fmt.Sprintf("body does not decode (%v, %d of %d)", err, k, n-4)
			return
		}
		p.frames++
		p.rx = p.rx[4+n:]
	}
}

func (w *world) doOp(ci int, seq *uint32, o op) opResult {
	r := opResult{op: o, startedAfterShutdown: getFlag(&shutdownReturned)}
	pool := w.pool
	switch o.kind {
	case opSend:
		*seq++
		r.err = pool.SendMessage(o.addr, &SimMsg{From: uint32(ci), Seq: *seq, Pad: make([]byte, o.pad)})
	case opBroadcast:
		*seq++
		ids, err := pool.BroadcastMessage(&SimMsg{From: uint32(ci), Seq: *seq}, o.addrs)
		r.err, r.n = err, len(ids)
		if err == nil && len(ids) == 0 {
			r.detail = "BroadcastMessage returned no connection ids and no error"
		}
		if len(ids) > len(o.addrs) {
			r.detail = "BroadcastMessage returned more ids than addresses"
		}
	case opDisconnect:
		r.err = pool.Disconnect(o.addr, errors.New("harness disconnect"))
	case opGetConns:
		cs, err := pool.GetConnections()
		r.err, r.n = err, len(cs)
		seen := map[string]bool{}
		for i := range cs {
			a := cs[i].Addr()
			if seen[a] {
				r.detail = "GetConnections lists address " + a + " twice"
			}
			seen[a] = true
		}
		if err == nil && len(cs) > w.sc.cfg.MaxConnections {
			r.detail = fmt.Sprintf("GetConnections returned %d connections, MaxConnections is %d", len(cs), w.sc.cfg.MaxConnections)
		}
	case opGetConn:
		cn, err := pool.GetConnection(o.addr)
		r.err = err
		if err == nil && cn != nil {
			r.n = 1
			if cn.Addr() != o.addr {
				r.detail = "GetConnection(" + o.addr + ") returned connection of " + cn.Addr()
			}
		}
	case opSize:
		n, err := pool.Size()
		r.err, r.n = err, n
		if err == nil && (n < 0 || n > w.sc.cfg.MaxConnections) {
			r.detail = fmt.Sprintf("Size() = %d, MaxConnections is %d", n, w.sc.cfg.MaxConnections)
		}
	case opPings:
		*seq++
		r.err = pool.SendPings(0, &SimMsg{From: uint32(ci), Seq: *seq})
	case opStale:
		l, err := pool.GetStaleConnections(time.Second)
		r.err, r.n = err, len(l)
	case opConnect:
		r.err = pool.Connect(o.addr)
	case opDrain:
		for {
			select {
			case <-pool.SendResults:
				r.n++
				continue
			default:
			}
			break
		}
	}
	return r
}

var errDial = errors.New("dial: connection refused")

func (w *world) dial(network, address string, timeout time.Duration) (net.Conn, error) {
	Yield("dial " + address)
	c, p, plan := w.newConn("10.0.0.1:50000", address)
	if plan.fail {
		c.peerClose(true)
		p.done = true
		bump(&dialRefused)
		return nil, errDial
	}
	w.startPeer(p, plan.script)
	return c, nil
}

func (w *world) caller(ci int) {
	var seq uint32
	for _, o := range w.sc.callers[ci] {
		Yield("act " + opNames[o.kind])
		w.results[ci] = append(w.results[ci], w.doOp(ci, &seq, o))
	}
}

// poolRun is the goroutine that runs the pool (what daemon.Run starts).
func (w *world) poolRun() {
	Register("run")
	Yield("start")
	setRunErr(w.pool.Run())
}

func (w *world) startPeer(p *peerState, script []peerStep) {
	w.startActor("peer"+itoa(p.conn.id), func() {
		w.runPeer(p, script)
		setFlag(&p.done)
	})
}

// ---------------------------------------------------------------------------
// allowed results

func allowedErr(o op, err error) bool {
	if err == nil || err == gnet.ErrConnectionPoolClosed {
		return true
	}
	msg := err.Error()
	switch o.kind {
	case opSend:
		return err == gnet.ErrWriteQueueFull || strings.Contains(msg, "but we are not connected")
	case opBroadcast:
		return err == gnet.ErrNoAddresses || err == gnet.ErrPoolEmpty || err == gnet.ErrNoMatchingConnections || err == gnet.ErrNoReachableConnections
	case opDisconnect:
		return msg == "Disconnect: connection does not exist"
	case opPings:
		return err == gnet.ErrWriteQueueFull || strings.Contains(msg, "but we are not connected")
	case opConnect:
		return err == gnet.ErrConnectionExists || err == gnet.ErrMaxOutgoingConnectionsReached ||
			err == gnet.ErrMaxOutgoingDefaultConnectionsReached || err == errDial
	}
	return false
}

// ---------------------------------------------------------------------------
// race reports

var raceOffset int64

func raceLogPath() string {
	p := os.Getenv("VERIF_RACE_LOG")
	if p == "" {
		return ""
	}
	return p + "." + itoa(os.Getpid())
}

// newRaceReports returns the race reports written since the last call.
func newRaceReports() []string {
	p := raceLogPath()
	if p == "" {
		return nil
	}
	b, err := os.ReadFile(p)
	if err != nil || int64(len(b)) <= raceOffset {
		return nil
	}
	txt := string(b[raceOffset:])
	raceOffset = int64(len(b))
	var out []string
	for _, blk := range strings.Split(txt, "==================") {
		if strings.Contains(blk, "DATA RACE") {
			out = append(out, blk)
		}
	}
	return out
}

// raceSignature extracts the innermost frame of each of the two racing accesses.  Reports produced by the
// race annotations inside package sync (WaitGroup misuse: Add concurrent with Wait) carry no frame of the
// annotated function or its caller: they show runtime.racewrite/raceread at <autogenerated> followed by the
// caller's caller, which for the pool's own WaitGroup is a harness frame; they are recognised by that shape.
func raceSignature(rep string) (sig string, harnessOnly bool, detail string) {
	lines := strings.Split(rep, "\n")
	var tops []string
	synthetic := false
	for i, l := range lines {
		tl := strings.TrimSpace(l)
		if (strings.HasPrefix(tl, "Write at ") || strings.HasPrefix(tl, "Read at ") || strings.HasPrefix(tl, "Previous write at ") ||
			strings.HasPrefix(tl, "Previous read at ")) && i+1 < len(lines) {
			top := ""
			for j := i + 1; j < len(lines) && strings.TrimSpace(lines[j]) != ""; j += 2 {
				f := strings.TrimSpace(lines[j])
				if (f == "runtime.racewrite()" || f == "runtime.raceread()") && j+1 < len(lines) && strings.Contains(lines[j+1], "<autogenerated>") {
					synthetic = true
				}
				if strings.HasPrefix(f, "runtime.") || strings.HasPrefix(f, "internal/") {
					continue
				}
				top = f
				break
			}
			if k := strings.LastIndex(top, "("); k > 0 {
				top = top[:k]
			}
			if k := strings.Index(top, "skycoin/skycoin/src/"); k >= 0 {
				top = top[k+len("skycoin/skycoin/src/"):]
			}
			tops = append(tops, top)
		}
	}
	var keep []string
	for _, l := range lines {
		if tl := strings.TrimSpace(l); tl != "" && !strings.HasPrefix(tl, "/opt/") {
			keep = append(keep, tl)
		}
		if len(keep) > 40 {
			break
		}
	}
	detail = strings.Join(keep, " | ")
	if len(tops) < 2 {
		return "race:unparsed", false, detail
	}
	pair := []string{tops[0], tops[1]}
	sort.Strings(pair)
	if synthetic {
		for i := range pair {
			pair[i] = strings.TrimPrefix(pair[i], "verifsim/e2.")
		}
		return "race:sync-annotation(WaitGroup Add concurrent with Wait):" + pair[0] + " <-> " + pair[1], false, detail
	}
	harnessOnly = strings.HasPrefix(tops[0], "verifsim/") || strings.HasPrefix(tops[1], "verifsim/")
	return "race:" + pair[0] + " <-> " + pair[1], harnessOnly, detail
}

// ---------------------------------------------------------------------------
// the run

// EmergencyExit is set by the worker: record the run and leave the process (a
// run that found a violation may leave goroutines that never finish, and the
// fake clock of a bubble with pending timers never deadlocks).
func runPool(c *sim.Ctx) {
	if os.Getenv("VERIF_E2_LOGS") == "" {
		logging.Disable()
	}
	sc := genScenario(c)
	worldReset()
	schedReset()
	newRaceReports() // skip anything written before this run

	w := &world{c: c, sc: sc, connsMu: make(chan struct{}, 1)}
	w.results = make([][]opResult, len(sc.callers))
	w.ln = newSimListener("10.0.0.1:6000")

	strand.VerifYield = func(name string) {
		if k := strings.LastIndex(name, "."); k >= 0 {
			name = name[k+1:]
		}
		Yield("strand " + name)
	}
	gnet.VerifSpin = func(name string) { Yield("spin") }
	gnet.VerifListen = func(network, address string) (net.Listener, error) {
		Yield("listen")
		if sc.listenFails {
			bump(&listenFailed)
			return nil, errors.New("listen tcp " + address + ": bind: address already in use")
		}
		return w.ln, nil
	}
	gnet.VerifDialTimeout = w.dial

	sc.cfg.ConnectCallback = func(addr string, id uint64, solicited bool) {
		Yield("cb.connect")
		s := uint64(0)
		if solicited {
			s = 1
		}
		logEvent(evConnect, addr, id, s, 0)
	}
	sc.cfg.DisconnectCallback = func(addr string, id uint64, reason gnet.DisconnectReason) {
		Yield("cb.disconnect")
		rs := ""
		if reason != nil {
			rs = reason.Error()
		}
		logEventR(evDisconnect, addr, id, 0, 0, rs)
	}
	sc.cfg.ConnectFailureCallback = func(addr string, solicited bool, err error) {
		Yield("cb.connectfail")
		logEvent(evConnectFail, addr, 0, 0, 0)
	}

	gnet.EraseMessages()
	gnet.RegisterMessage(gnet.MessagePrefixFromString("SIMM"), SimMsg{})
	gnet.VerifyMessages()

	pool, err := gnet.NewConnectionPool(sc.cfg, w)
	if err != nil {
		sim.Harnessf("NewConnectionPool: %v", err)
	}
	w.pool = pool
	start := time.Now()

	go w.poolRun()

	// actors
	for i := range sc.callers {
		ci := i
		w.startActor("caller"+itoa(ci), func() { w.caller(ci) })
	}
	if len(sc.incoming) > 0 {
		w.startActor("dialer", func() {
			for _, remote := range sc.incoming {
				Yield("act dial-in")
				cn, p, plan := w.newConn("10.0.0.1:6000", remote)
				w.startPeer(p, plan.script)
				select {
				case w.ln.backlog <- cn:
				default:
				}
			}
		})
	}
	w.startActor("shutdown", func() {
		for i := 0; i < sc.shutdownWait; i++ {
			Yield("act wait")
		}
		for sc.framing && !w.framingSettled() {
			Yield("act wait-for-delivery")
		}
		Yield("act shutdown")
		setFlag(&shutdownCalled)
		pool.Shutdown()
		setFlag(&shutdownReturned)
	})

	c.Sample = append(c.Sample, fmt.Sprintf("callers=%d incoming=%d maxout=%d maxin=%d wq=%d sr=%d rt=%v wt=%v shutdown after %d waits, %d decisions",
		len(sc.callers), len(sc.incoming), sc.cfg.MaxOutgoingConnections, sc.cfg.MaxIncomingConnections, sc.cfg.ConnectionWriteQueueSize,
		sc.cfg.SendResultsSize, sc.cfg.ReadTimeout, sc.cfg.WriteTimeout, sc.shutdownWait, sc.decisions))

	// ---- controller loop ----
	listening := sc.earlyStart
	drainTurn := 0
	drainSteps := 0
	var drainStart time.Time
	finished := false
	setActive(true)
	defer setActive(false)
	for {
		progress()
		synctest.Wait()
		c.SimNanos = int64(time.Since(start))
		parked := collectParked()
		if w.checkRaces() {
			break
		}
		done := getFlag(&runReturned) && getFlag(&shutdownReturned)
		for i := 0; i < actorCount(); i++ {
			if !getFlag(&actorsDone[i]) {
				done = false
			}
		}
		if done && len(parked) == 0 {
			finished = true
			break
		}
		draining := c.Step >= sc.decisions
		if draining {
			if drainStart.IsZero() {
				drainStart = time.Now()
			}
			drainSteps++
			if time.Since(drainStart) > 10*time.Minute || drainSteps > 60000 {
				w.reportStuck(parked)
				break
			}
		}
		if len(parked) == 0 {
			// nothing can run now: let time pass (deadlines, strand warnings)
			d := 500 * time.Millisecond
			if !draining {
				d = []time.Duration{200 * time.Millisecond, time.Millisecond, time.Second, 4 * time.Second}[c.T.Int("idle", 4)]
			}
			c.Step++
			c.Count("sched.idle_advance")
			c.Logf("idle advance %v", d)
			c.Kind(61, true)
			advance(d)
			continue
		}
		if !listening {
			// hold the actors back until the pool is accepting (the other order is the "early" sub-profile)
			var pl []parkedG
			for _, p := range parked {
				if !p.harness || p.name == "run" {
					pl = append(pl, p)
				}
				if p.label == "listener.accept" {
					listening = true
				}
			}
			if !listening && len(pl) > 0 {
				parked = pl
			} else {
				listening = true
			}
		}
		var pick int
		if draining {
			pick = drainTurn % len(parked)
			drainTurn++
			c.Count("sched.drain_release")
		} else {
			n := len(parked)
			if c.T.Chance("sched-advance", 1, 12) {
				d := []time.Duration{time.Millisecond, 300 * time.Millisecond, 1100 * time.Millisecond, 3100 * time.Millisecond}[c.T.Int("adv", 4)]
				c.Step++
				c.Count("sched.time_advance")
				c.Logf("advance %v with %d parked", d, n)
				c.Kind(60, true)
				advance(d)
				continue
			}
			// Rendezvous choice: the tape value and each parked goroutine's identity give a score, the lowest score
			// runs.  Unlike an index into the list, this choice does not shift when some unrelated goroutine is or is
			// not parked (the Go runtime's pick among several ready select cases makes such differences between two
			// executions of one tape), so replays stay on course.
			v := c.T.Draw("sched", 1<<32)
			best := uint64(0)
			for i, p := range parked {
				if sc := rendezvous(v, p.name, p.label); i == 0 || sc < best {
					best, pick = sc, i
				}
			}
		}
		p := parked[pick]
		c.Step++
		c.Logf("release %s @ %s (of %d)", p.name, p.label, len(parked))
		c.Kind(labelKind(p.label), p.harness)
		release(p.idx)
		stepOnce()
	}

	if !c.Failed() {
		synctest.Wait()
		w.checkRaces()
	}
	if !c.Failed() && finished {
		w.finalChecks()
	}
	c.SimNanos = int64(time.Since(start))
	w.account()
	if d := os.Getenv("VERIF_E2_DUMP"); d != "" {
		// development aid: the decision log of every run, to compare two processes line by line
		_ = os.WriteFile(fmt.Sprintf("%s/%d.log", d, c.Seed), []byte(strings.Join(c.LogLines, "\n")+"\n"), 0o644)
	}
	if c.Failed() {
		// goroutines of a failed run may never finish: the worker leaves the process
		if c.Bail != nil {
			c.Bail()
		}
	}
	schedOff()
	strand.VerifYield, gnet.VerifSpin, gnet.VerifListen, gnet.VerifDialTimeout = nil, nil, nil, nil
}

func rendezvous(v uint64, name, label string) uint64 {
	h := uint64(1469598103934665603) ^ (v * 0x9e3779b97f4a7c15)
	for i := 0; i < len(name); i++ {
		h ^= uint64(name[i])
		h *= 1099511628211
	}
	h ^= 0xff
	h *= 1099511628211
	for i := 0; i < len(label); i++ {
		h ^= uint64(label[i])
		h *= 1099511628211
	}
	h ^= h >> 29
	h *= 0xbf58476d1ce4e5b9
	h ^= h >> 32
	return h
}

func labelKind(l string) byte {
	h := byte(0)
	for i := 0; i < len(l); i++ {
		if l[i] >= '0' && l[i] <= '9' {
			continue
		}
		h = h*31 + l[i]
	}
	return h % 60
}

func (w *world) checkRaces() bool {
	for _, rep := range newRaceReports() {
		sig, harnessOnly, detail := raceSignature(rep)
		if harnessOnly {
			sim.Harnessf("data race inside harness code: %s", detail)
		}
		if w.c.KnownHit("data-race", sig, "the race detector reported: %s", detail) {
			w.c.Count("probe.known_race_reports")
			continue
		}
		w.c.Violate("data-race", sig, "the race detector reported: %s", detail)
		return true
	}
	return false
}

func (w *world) reportStuck(parked []parkedG) {
	c := w.c
	if w.sc.framing && !getFlag(&shutdownCalled) {
		if st := w.framingStuck(); st != "" {
			k := strings.Index(st, "|")
			c.Violate(st[:k], "stream", "after the exploration budget and 10 simulated minutes of fair scheduling: %s", st[k+1:])
			return
		}
	}
	var stuck []string
	for i := range w.sc.callers {
		if len(w.results[i]) < len(w.sc.callers[i]) {
			o := w.sc.callers[i][len(w.results[i])]
			stuck = append(stuck, "caller"+itoa(i)+":"+opNames[o.kind])
		}
	}
	what := "call-stuck"
	sig := strings.Join(stuck, ",")
	if getFlag(&shutdownCalled) && !getFlag(&shutdownReturned) {
		what, sig = "shutdown-stuck", "Shutdown did not return"
	} else if len(stuck) == 0 {
		if !getFlag(&runReturned) {
			what, sig = "run-stuck", "Run did not return after Shutdown"
		} else {
			what, sig = "goroutines-stuck", "harness actors or pool goroutines still parked"
		}
	} else {
		// signature: kinds of the stuck operations only
		ks := map[string]bool{}
		for _, s := range stuck {
			ks[s[strings.Index(s, ":")+1:]] = true
		}
		var l []string
		for k := range ks {
			l = append(l, k)
		}
		sort.Strings(l)
		sig = strings.Join(l, ",")
	}
	var pk []string
	for _, p := range parked {
		pk = append(pk, p.name+"@"+p.label)
	}
	c.Violate(what, sig, "after every actor had been given 10 simulated minutes / 60000 scheduling turns beyond the exploration budget: %s; still parked: %s; gnet goroutines: %s",
		strings.Join(stuck, " "), strings.Join(pk, " "), gnetGoroutines())
}

// gnetGoroutines lists goroutines that still execute pool code.
func gnetGoroutines() string {
	buf := make([]byte, 1<<20)
	n := runtime.Stack(buf, true)
	var out []string
	for _, g := range strings.Split(string(buf[:n]), "\n\n") {
		if !strings.Contains(g, "daemon/gnet.") && !strings.Contains(g, "daemon/strand.") {
			continue
		}
		if strings.Contains(g, "e2.gnetGoroutines") {
			continue
		}
		lines := strings.Split(g, "\n")
		fn := ""
		for _, l := range lines[1:] {
			if strings.Contains(l, "daemon/gnet.") || strings.Contains(l, "daemon/strand.") {
				fn = funcName(l)
				break
			}
		}
		out = append(out, fn)
	}
	sort.Strings(out)
	return strings.Join(out, ",")
}

func (w *world) finalChecks() {
	c := w.c
	if w.sc.framing {
		w.framingChecks()
		if c.Failed() {
			return
		}
	}
	// 1. results of every call
	for ci, rs := range w.results {
		for k, r := range rs {
			name := opNames[r.op.kind]
			if r.op.kind == opDrain {
				continue
			}
			if !allowedErr(r.op, r.err) {
				c.Violate("call-result", name+":unexpected-error", "caller %d op %d %s returned %v, which is neither success, the pool-closed error nor a documented error of that call", ci, k, name, r.err)
				return
			}
			if r.startedAfterShutdown && r.err != gnet.ErrConnectionPoolClosed && r.err != gnet.ErrNoAddresses {
				c.Violate("call-result", name+":not-closed-after-shutdown", "caller %d op %d %s started after Shutdown had returned and returned %v instead of the pool-closed error", ci, k, name, r.err)
				return
			}
			if r.detail != "" && r.err == nil {
				c.Violate("call-result", name+":inconsistent", "caller %d op %d %s: %s", ci, k, name, r.detail)
				return
			}
			if r.err == gnet.ErrConnectionPoolClosed {
				c.Count("probe.call_returned_pool_closed")
			} else if r.err == nil {
				c.Count("probe.call_succeeded")
			} else {
				c.Count("probe.call_domain_error")
			}
		}
	}
	// 2. nothing left registered
	n1, n2, n3, n4, n5 := w.pool.VerifPoolSizesUnsynced()
	if n1+n2+n3+n4+n5 != 0 {
		c.Violate("left-registered", fmt.Sprintf("pool=%t addresses=%t default=%t outgoing=%t incoming=%t", n1 != 0, n2 != 0, n3 != 0, n4 != 0, n5 != 0),
			"after Shutdown returned the pool still holds pool=%d addresses=%d defaultOutgoing=%d outgoing=%d incoming=%d entries", n1, n2, n3, n4, n5)
		return
	}
	// 3. every connection handed to the pool is closed on the pool side
	inBacklog := map[*simConn]bool{}
	for {
		select {
		case cn := <-w.ln.backlog:
			inBacklog[cn] = true
			continue
		default:
		}
		break
	}
	for i, cn := range w.conns {
		if inBacklog[cn] || (i < len(w.sc.plans) && w.sc.plans[i].fail && cn.local != "10.0.0.1:6000") {
			continue
		}
		if !cn.poolClosed() && w.handedToPool(cn) {
			c.Violate("conn-left-open", "connection not closed after Shutdown", "connection %d (%s) was given to the pool and is still open after Shutdown returned", cn.id, cn.remote)
			return
		}
	}
	// 4. goroutines
	if g := gnetGoroutines(); g != "" {
		c.Violate("goroutine-left", g, "pool goroutines still alive after Shutdown and Run returned: %s", g)
		return
	}
	// 5. callbacks: connect ids unique and increasing, disconnect only after connect and only once
	evs := snapshotEvents()
	live := map[uint64]string{}
	gone := map[uint64]bool{}
	var last uint64
	for _, e := range evs {
		switch e.kind {
		case evConnect:
			if e.id <= last {
				c.Violate("callbacks", "connect-id-not-increasing", "connect callback for %s carries id %d after id %d", e.addr, e.id, last)
				return
			}
			last = e.id
			live[e.id] = e.addr
			c.Count("probe.connect_callbacks")
		case evDisconnect:
			if a, ok := live[e.id]; !ok || a != e.addr {
				what := "disconnect-without-connect"
				if gone[e.id] {
					what = "disconnect-twice"
				}
				c.Violate("callbacks", what, "disconnect callback for %s id %d without a matching live connect callback", e.addr, e.id)
				return
			}
			delete(live, e.id)
			gone[e.id] = true
			c.Count("probe.disconnect_callbacks")
		case evConnectFail:
			c.Count("probe.connect_failure_callbacks")
		case evDelivered:
			c.Count("probe.messages_delivered")
		}
	}
	// 6. what peers received is well-formed
	for _, p := range w.peers {
		p.absorb(p.conn.peerRead())
		if p.garbled != "" {
			c.Violate("wire-garbled", "peer received a malformed frame", "peer of connection %d received bytes that are not a sequence of well-formed frames: %s", p.conn.id, p.garbled)
			return
		}
		c.CountN("probe.frames_received_by_peers", int64(p.frames))
	}
	// 7. per connection, messages are delivered in the order the peer sent them, none twice
	lastSeq := map[uint64]uint64{}
	for _, e := range evs {
		if e.kind == evDelivered {
			if e.b <= lastSeq[e.id] {
				c.Violate("delivery-order", "message delivered twice or out of order", "connection id %d delivered sequence number %d after %d", e.id, e.b, lastSeq[e.id])
				return
			}
			lastSeq[e.id] = e.b
		}
	}
}

// framingSettled: every scripted peer has finished and everything it sent before a malformed frame has been
// delivered, or its connection is gone; a malformed frame has led to the disconnect.
//
//go:norace
func (w *world) framingSettled() bool {
	if len(w.conns) < len(w.sc.incoming) {
		return false
	}
	for _, p := range w.peers {
		if !p.done {
			return false
		}
		n, gone, reason := deliveredForR(string(p.conn.remote))
		if gone {
			// after a clean close everything already received is still handed to the handler: wait for it
			// (unless the receive queue overflowed, which drops messages by design)
			if p.cleanClose && n < p.goodSent && !strings.Contains(reason, "msgChan is closed or full") {
				return false
			}
			continue
		}
		if p.bad != "" || p.cleanClose || n < p.goodSent {
			return false
		}
	}
	return true
}

//go:norace
func (w *world) framingStuck() string {
	for _, p := range w.peers {
		n, gone, reason := deliveredForR(string(p.conn.remote))
		if gone && p.cleanClose && p.done && n < p.goodSent && !strings.Contains(reason, "msgChan is closed or full") {
			return fmt.Sprintf("messages-lost-at-close|connection %s: the peer sent %d well-formed messages and closed; %d were delivered (disconnect reason %q)", p.conn.remote, p.goodSent, n, reason)
		}
		if gone || !p.done {
			continue
		}
		if p.cleanClose {
			return fmt.Sprintf("no-disconnect-after-close|connection %s: the peer closed, the pool still holds the connection", p.conn.remote)
		}
		if n < p.goodSent {
			return fmt.Sprintf("messages-not-delivered|connection %s: %d of %d well-formed messages delivered and the connection is still up", p.conn.remote, n, p.goodSent)
		}
		if p.bad != "" {
			return fmt.Sprintf("no-disconnect-after-bad-frame|connection %s: a malformed frame (%s) did not lead to a disconnect", p.conn.remote, p.bad)
		}
	}
	return ""
}

// framingChecks: the C22 oracle over the recorded history.
func (w *world) framingChecks() {
	c := w.c
	evs := snapshotEvents()
	for _, p := range w.peers {
		addr := string(p.conn.remote)
		var seqs []uint64
		reason, disconnected, early := "", false, false
		for _, e := range evs {
			if e.addr != addr {
				continue
			}
			switch e.kind {
			case evCorrupt:
				c.Violate("message-corrupted", "content", "connection %s delivered message %d with damaged content: %s", addr, e.b, e.reason)
				return
			case evDelivered:
				seqs = append(seqs, e.b)
			case evDisconnect:
				if !disconnected {
					reason, disconnected = e.reason, true
				}
			}
		}
		_ = early
		for i, sq := range seqs {
			if sq != uint64(i+1) {
				c.Violate("delivery-sequence", "not-the-sent-sequence", "connection %s: the %d-th delivered message has sequence number %d (peer sent 1, 2, 3, ... in order): %v", addr, i+1, sq, seqs)
				return
			}
		}
		max := p.goodSent
		if p.bad == errHandlerRefused.Error() {
			max++
		}
		if len(seqs) > max {
			c.Violate("delivery-sequence", "delivered-after-bad-frame", "connection %s delivered %d messages, only %d were sent before the malformed frame", addr, len(seqs), max)
			return
		}
		c.CountN("probe.stream_messages_delivered", int64(len(seqs)))
		switch {
		case p.bad != "":
			if !disconnected {
				c.Violate("bad-frame", "no-disconnect", "connection %s: malformed frame (%s) did not disconnect", addr, p.bad)
				return
			}
			if reason != p.bad && !(p.bad == "EOF" && strings.Contains(reason, "EOF")) && !strings.Contains(reason, "msgChan is closed or full") {
				c.Violate("bad-frame", "reason:"+p.bad, "connection %s: malformed frame must disconnect with %q, the disconnect reason was %q", addr, p.bad, reason)
				return
			}
			c.Count("probe.bad_frame_disconnected")
		case p.cleanClose:
			if strings.Contains(reason, "msgChan is closed or full") {
				c.Count("probe.receive_queue_overflow")
			} else if len(seqs) != p.goodSent {
				c.Violate("delivery-sequence", "lost-at-close", "connection %s: the peer sent %d well-formed messages and then closed; only %d were delivered (disconnect reason %q)", addr, p.goodSent, len(seqs), reason)
				return
			} else {
				c.Count("probe.stream_fully_delivered_before_close")
			}
		case disconnected:
			// a peer that only sent well-formed messages and did not leave
			if strings.Contains(reason, "msgChan is closed or full") {
				c.Count("probe.receive_queue_overflow")
			} else if reason != "Shutdown" && !strings.Contains(reason, "pool is closed") {
				c.Violate("well-formed-stream-disconnected", reason, "connection %s sent only well-formed messages and was disconnected: %q (delivered %d of %d)", addr, reason, len(seqs), p.goodSent)
				return
			}
		default:
			if len(seqs) != p.goodSent {
				c.Violate("delivery-sequence", "incomplete", "connection %s stayed up but only %d of %d messages were delivered", addr, len(seqs), p.goodSent)
				return
			}
			c.Count("probe.stream_fully_delivered")
		}
	}
	c.CountN("fault.stream_cuts", int64(readInt(&streamCuts)))
}

func (w *world) handedToPool(cn *simConn) bool {
	// a connection counts as handed over once the pool has operated on it (read/write/close) or accepted/dialed it;
	// every connection not in the backlog was accepted or returned by dial
	return true
}

func (w *world) account() {
	c := w.c
	rt, wt := 0, 0
	for _, cn := range w.conns {
		cn.mu.Lock()
		rt += cn.readTimeouts
		wt += cn.writeTimeouts
		cn.mu.Unlock()
	}
	c.CountN("fault.read_timeout", int64(rt))
	c.CountN("fault.write_timeout", int64(wt))
	for i, p := range w.peers {
		if i < len(w.sc.plans) {
			for _, st := range w.sc.plans[i].script {
				_ = st
			}
		}
		_ = p
	}
	c.CountN("conns.created", int64(len(w.conns)))
	c.CountN("fault.dial_refused", int64(readInt(&dialRefused)))
	c.CountN("fault.listen_fails", int64(readInt(&listenFailed)))
	c.CountN("fault.peer_close", int64(readInt(&peerCloses)))
	c.CountN("fault.peer_abort", int64(readInt(&peerAborts)))
	c.CountN("fault.peer_stall", int64(readInt(&peerStalls)))
	c.CountN("fault.handler_refuses_message", int64(readInt(&badMsgs)))
	c.CountN("fault.unknown_message_id", int64(readInt(&garbageMsgs)))
	if getFlag(&shutdownCalled) {
		c.Count("fault.shutdown")
	}
	if w.sc.earlyStart {
		c.Count("fault.actors_before_listen")
	}
	c.State(uint64(len(w.conns)), uint64(c.Step/50), uint64(nEventsNow()))
}

//go:norace
func nEventsNow() int { return nEvents }
