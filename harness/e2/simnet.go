package e2

import (
	"errors"
	"io"
	"net"
	"os"
	"sync"
	"time"
)

// Simulated TCP: a connection is two byte pipes.  The pool side implements
// net.Conn (blocking reads and writes with deadlines on the fake clock, every
// operation is a yield point); the peer side is driven by a scripted harness
// goroutine with non-blocking primitives.

type simAddr string

func (a simAddr) Network() string { return "tcp" }
func (a simAddr) String() string  { return string(a) }

var (
	errClosedConn = errors.New("use of closed network connection")
	errPipe       = errors.New("write: broken pipe")
	errReset      = errors.New("read: connection reset by peer")
)

type half struct {
	buf     []byte
	limit   int  // 0 = unbounded
	wclosed bool // writing side is gone: reader sees EOF after draining
	rclosed bool // reading side is gone: writer gets an error
}

type simConn struct {
	id     int
	label  string
	local  simAddr
	remote simAddr

	mu     sync.Mutex
	in     half // peer -> pool
	out    half // pool -> peer
	closed bool // pool side closed
	reset  bool // peer aborted: reads fail with a reset error
	change chan struct{}
	rdl    time.Time
	wdl    time.Time

	// statistics (guarded by mu)
	readTimeouts, writeTimeouts int
}

func newSimConn(id int, local, remote string, outLimit int) *simConn {
	return &simConn{id: id, label: "c" + itoa(id), local: simAddr(local), remote: simAddr(remote),
		out: half{limit: outLimit}, change: make(chan struct{})}
}

func itoa(i int) string {
	if i == 0 {
		return "0"
	}
	var b [20]byte
	p := len(b)
	neg := i < 0
	if neg {
		i = -i
	}
	for i > 0 {
		p--
		b[p] = byte('0' + i%10)
		i /= 10
	}
	if neg {
		p--
		b[p] = '-'
	}
	return string(b[p:])
}

// signal wakes every waiter; call with mu held.
func (c *simConn) signal() {
	close(c.change)
	c.change = make(chan struct{})
}

func (c *simConn) wait(ch chan struct{}, deadline time.Time) (timedOut bool) {
	if deadline.IsZero() {
		<-ch
		return false
	}
	d := time.Until(deadline)
	if d <= 0 {
		return true
	}
	t := time.NewTimer(d)
	defer t.Stop()
	select {
	case <-ch:
		return false
	case <-t.C:
		return true
	}
}

func (c *simConn) Read(p []byte) (int, error) {
	Yield(c.label + ".read")
	for {
		if isAborted() {
			return 0, errClosedConn
		}
		c.mu.Lock()
		switch {
		case c.closed:
			c.mu.Unlock()
			return 0, errClosedConn
		case len(c.in.buf) > 0:
			n := copy(p, c.in.buf)
			c.in.buf = c.in.buf[n:]
			c.mu.Unlock()
			return n, nil
		case c.reset:
			c.mu.Unlock()
			return 0, errReset
		case c.in.wclosed:
			c.mu.Unlock()
			return 0, io.EOF
		}
		ch, dl := c.change, c.rdl
		c.mu.Unlock()
		if c.wait(ch, dl) {
			c.mu.Lock()
			c.readTimeouts++
			c.mu.Unlock()
			Yield(c.label + ".read.timeout")
			return 0, os.ErrDeadlineExceeded
		}
		Yield(c.label + ".read.wake")
	}
}

func (c *simConn) Write(p []byte) (int, error) {
	Yield(c.label + ".write")
	written := 0
	for {
		if isAborted() {
			return written, errClosedConn
		}
		c.mu.Lock()
		switch {
		case c.closed:
			c.mu.Unlock()
			return written, errClosedConn
		case c.out.rclosed || c.reset:
			c.mu.Unlock()
			return written, errPipe
		}
		space := len(p) - written
		if c.out.limit > 0 {
			if free := c.out.limit - len(c.out.buf); free < space {
				space = free
			}
		}
		if space > 0 {
			c.out.buf = append(c.out.buf, p[written:written+space]...)
			written += space
			c.signal()
		}
		if written == len(p) {
			c.mu.Unlock()
			return written, nil
		}
		ch, dl := c.change, c.wdl
		c.mu.Unlock()
		if c.wait(ch, dl) {
			c.mu.Lock()
			c.writeTimeouts++
			c.mu.Unlock()
			Yield(c.label + ".write.timeout")
			return written, os.ErrDeadlineExceeded
		}
		Yield(c.label + ".write.wake")
	}
}

func (c *simConn) Close() error {
	Yield(c.label + ".close")
	c.mu.Lock()
	defer c.mu.Unlock()
	if c.closed {
		return errClosedConn
	}
	c.closed = true
	c.out.wclosed = true
	c.in.rclosed = true
	c.signal()
	return nil
}

func (c *simConn) LocalAddr() net.Addr  { return c.local }
func (c *simConn) RemoteAddr() net.Addr { return c.remote }
func (c *simConn) SetDeadline(t time.Time) error {
	c.mu.Lock()
	c.rdl, c.wdl = t, t
	c.mu.Unlock()
	return nil
}
func (c *simConn) SetReadDeadline(t time.Time) error {
	c.mu.Lock()
	c.rdl = t
	c.mu.Unlock()
	return nil
}
func (c *simConn) SetWriteDeadline(t time.Time) error {
	c.mu.Lock()
	c.wdl = t
	c.mu.Unlock()
	return nil
}

// ---- peer side (non-blocking) ----

func (c *simConn) peerWrite(b []byte) bool {
	c.mu.Lock()
	defer c.mu.Unlock()
	if c.in.wclosed || c.in.rclosed {
		return false
	}
	c.in.buf = append(c.in.buf, b...)
	c.signal()
	return true
}

func (c *simConn) peerRead() []byte {
	c.mu.Lock()
	defer c.mu.Unlock()
	b := c.out.buf
	c.out.buf = nil
	if len(b) > 0 {
		c.signal()
	}
	return b
}

func (c *simConn) peerClose(abort bool) {
	c.mu.Lock()
	defer c.mu.Unlock()
	c.in.wclosed = true
	c.out.rclosed = true
	if abort {
		c.reset = true
	}
	c.signal()
}

func (c *simConn) poolClosed() bool {
	c.mu.Lock()
	defer c.mu.Unlock()
	return c.closed
}

func (c *simConn) poolSideGone() (closed, eof bool) {
	c.mu.Lock()
	defer c.mu.Unlock()
	return c.closed, c.out.wclosed
}

// ---- listener ----

type simListener struct {
	addr    simAddr
	backlog chan *simConn
	closed  chan struct{}
	once    sync.Once
}

func newSimListener(addr string) *simListener {
	return &simListener{addr: simAddr(addr), backlog: make(chan *simConn, 64), closed: make(chan struct{})}
}

func (l *simListener) Accept() (net.Conn, error) {
	Yield("listener.accept")
	if isAborted() {
		return nil, errClosedConn
	}
	select {
	case <-l.closed:
		return nil, errClosedConn
	default:
	}
	select {
	case c := <-l.backlog:
		Yield("listener.accept.wake")
		return c, nil
	case <-l.closed:
		return nil, errClosedConn
	}
}

func (l *simListener) Close() error {
	// no yield point here: the pool closes its listener while holding a sync.Mutex, and a goroutine blocked on a
	// sync.Mutex is not durably blocked, so parking the holder would keep the bubble from ever becoming quiescent
	l.once.Do(func() { close(l.closed) })
	return nil
}

func (l *simListener) Addr() net.Addr { return l.addr }
