package e3

import (
	"bytes"
	"crypto/sha256"
	"encoding/base64"
	"encoding/binary"
	"encoding/hex"
	"encoding/json"
	"fmt"
	"io/ioutil"
	"os"
	"path/filepath"
	"strings"

	"github.com/skycoin/skycoin/src/cipher"
	"github.com/skycoin/skycoin/src/cipher/crypto"
	secp256k1 "github.com/skycoin/skycoin/src/cipher/secp256k1-go"
	"github.com/skycoin/skycoin/src/wallet"

	"verifsim/model"
	"verifsim/sim"
)

func mkWallet(typ, seed, pass, xpub string, keys []cipher.SecKey, n uint64) (wallet.Wallet, error) {
	opts := wallet.Options{Type: typ, Label: "w", Seed: seed, SeedPassphrase: pass, XPub: xpub, GenerateN: n, CollectionPrivateKeys: keys}
	return wallet.NewWallet("derive.wlt", "w", seed, opts)
}

func entriesOf(w wallet.Wallet, change bool) wallet.Entries {
	var o []wallet.Option
	if w.Type() == wallet.WalletTypeBip44 {
		if change {
			o = append(o, wallet.OptionChange())
		} else {
			o = append(o, wallet.OptionExternal())
		}
	} else if change {
		return nil
	}
	es, err := w.GetEntries(o...)
	if err != nil {
		sim.Harnessf("GetEntries: %v", err)
	}
	return es
}

func addrBytes(a cipher.Addresser) string { return a.String() }

// entryConsistent checks address = address(pubkey) and pubkey = pubkey(seckey)
// with the harness' own curve and hash code.
func entryConsistent(c *sim.Ctx, e wallet.Entry, what string) bool {
	ma := model.AddrFromPub([33]byte(e.Public))
	var ca cipher.Address
	ca.Version = ma[0]
	copy(ca.Key[:], ma[1:])
	if ca.String() != e.Address.String() {
		c.Violate("entry-address", "address-not-of-pubkey", "%s: entry address %s is not the address of its public key (%s)", what, e.Address.String(), ca.String())
		return false
	}
	if e.Secret != (cipher.SecKey{}) {
		pub, ok := model.PubFromSec([32]byte(e.Secret))
		if !ok || pub != [33]byte(e.Public) {
			c.Violate("entry-pubkey", "pubkey-not-of-seckey", "%s: entry public key is not the public key of its secret key", what)
			return false
		}
	}
	return true
}

// runDerive: C17.  A wallet is driven through generate / scan / reload /
// lock-unlock operations; afterwards its entries must equal those of a fresh
// wallet from the same seed that generated the same total in one batch.
func runDerive(c *sim.Ctx) {
	t := c.T
	if t.Chance("collection-wallet", 1, 8) {
		runCollection(c)
		return
	}
	typ := []string{wallet.WalletTypeDeterministic, wallet.WalletTypeBip44, wallet.WalletTypeXPub}[t.Pick("wtype", 4, 4, 2)]
	// Seeds come from a small fixed pool shared by all runs of a worker: what varies between
	// runs is the operation history, and the one-batch reference wallets can be reused.
	si := t.Int("seed", 4)
	seed, pass, xpub := "", "", ""
	mn := mnemonic(0, si)
	switch typ {
	case wallet.WalletTypeDeterministic:
		// a deterministic wallet's seed is an arbitrary string: blanks, tabs and line ends around it are part of it
		seed = []string{"det seed 0 of the pool", "det seed 1 of the pool\n", " \tdet seed 2 of the pool", "det seed 3 of the pool  "}[si]
	case wallet.WalletTypeBip44:
		seed = mn
		if t.Bool("passphrase") {
			pass = "pass phrase"
		}
	case wallet.WalletTypeXPub:
		if t.Bool("passphrase") {
			pass = "pass phrase"
		}
		xpub = xpubOf(mn, pass)
	}
	w, err := mkWallet(typ, seed, pass, xpub, nil, 0)
	if err != nil {
		sim.Harnessf("create %s wallet: %v", typ, err)
	}
	// the default cipher is scrypt with N=2^20 (1 GiB, seconds per lock): derivation does not depend on it
	w.SetCryptoType([]crypto.CryptoType{crypto.CryptoTypeSha256Xor, crypto.CryptoTypeScryptChacha20poly1305Insecure}[t.Pick("derive-cipher", 3, 1)])
	tf := scriptedTF{threshold: byte(t.Int("scan-activity", 200))}
	total := map[bool]int{}
	locked := false
	pw := []byte("pw")
	steps := t.Range("derive-steps", 3, 12)
	c.Sample = append(c.Sample, fmt.Sprintf("%s wallet, %d generate/scan/reload/lock operations", typ, steps))
	for c.Step = 1; c.Step <= steps && !c.Failed(); c.Step++ {
		switch t.Pick("derive-op", 6, 3, 3, 2) {
		case 0: // generate n in one batch
			n := []uint64{0, 1, 2, 5}[t.Pick("gen-n", 1, 4, 3, 2)]
			change := typ == wallet.WalletTypeBip44 && t.Chance("change-chain", 1, 3)
			var o []wallet.Option
			o = append(o, wallet.OptionGenerateN(n))
			if change {
				o = append(o, wallet.OptionChange())
			}
			target := w
			var err error
			if locked && typ == wallet.WalletTypeDeterministic {
				err = wallet.GuardUpdate(w, pw, func(uw wallet.Wallet) error {
					_, e := uw.GenerateAddresses(o...)
					return e
				})
			} else {
				_, err = target.GenerateAddresses(o...)
			}
			c.Kind(1, err == nil)
			c.Logf("generate %d change=%v locked=%v -> %v", n, change, locked, err)
			if err == nil {
				total[change] += int(n)
				c.Count("op.generate")
			}
		case 1: // scan ahead
			if locked && typ == wallet.WalletTypeDeterministic {
				continue
			}
			n := uint64(1 + t.Int("scan-n", 8))
			before := len(entriesOf(w, false))
			beforeC := len(entriesOf(w, true))
			ftf := tf
			if t.Chance("scan-lookup-fails", 1, 4) {
				ftf.fail = true
				c.Count("fault.activity_lookup_error_during_scan")
			}
			_, err := w.ScanAddresses(n, ftf)
			c.Kind(2, err == nil)
			if err != nil {
				c.Logf("scan %d -> %v", n, err)
				// a failed scan must leave the wallet as it was
				if len(entriesOf(w, false)) != before || len(entriesOf(w, true)) != beforeC {
					c.Violate("failed-scan-changed-wallet", typ, "%s wallet: a scan that failed (%v) changed the number of entries", typ, err)
					return
				}
				break
			}
			c.Count("op.scan")
			// expected: the prefix of the one-batch sequence up to the last active address among the next n, never shorter than before
			for _, change := range []bool{false, true} {
				if change && typ != wallet.WalletTypeBip44 {
					continue
				}
				b := before
				if change {
					b = beforeC
				}
				ref := refEntries(typ, seed, pass, xpub, b+int(n), change)
				if ref == nil {
					continue
				}
				var as []cipher.Addresser
				for _, e := range ref[b:] {
					as = append(as, e.Address)
				}
				act, _ := tf.AddressesActivity(as)
				keep := b
				for i, a := range act {
					if a {
						keep = b + i + 1
					}
				}
				got := len(entriesOf(w, change))
				c.Logf("scan %d change=%v: %d -> %d entries (expected %d)", n, change, b, got, keep)
				if got != keep {
					c.Violate("scan-length", fmt.Sprintf("%s:got%sexp", typ, cmp(got, keep)), "%s wallet: scanning %d ahead of %d entries (change=%v) left %d entries; the last active address is number %d", typ, n, b, change, got, keep)
					return
				}
				total[change] = got
			}
		case 2: // save to disk and load again
			b, err := w.Serialize()
			if err != nil {
				sim.Harnessf("Serialize: %v", err)
			}
			p := filepath.Join(c.Dir, "derive.wlt")
			if err := ioutil.WriteFile(p, b, 0o600); err != nil {
				sim.Harnessf("write: %v", err)
			}
			nw, err := wallet.Load(p)
			if err != nil || nw == nil {
				c.Violate("reload-failed", typ, "%s wallet does not load from its own serialisation: %v", typ, err)
				return
			}
			w = nw
			c.Kind(3, true)
			c.Count("fault.reload")
			c.Logf("reload")
		case 3: // lock / unlock
			if typ == wallet.WalletTypeXPub {
				continue
			}
			if !locked {
				if err := w.Lock(pw); err != nil {
					sim.Harnessf("Lock: %v", err)
				}
				locked = true
			} else {
				uw, err := w.Unlock(pw)
				if err != nil {
					c.Violate("unlock-failed", typ, "%s wallet does not unlock with its own password: %v", typ, err)
					return
				}
				w = uw
				locked = false
			}
			c.Kind(4, true)
			c.Count("op.lock_toggle")
			c.Logf("locked=%v", locked)
		}
		// compare with the one-batch reference after every step
		for _, change := range []bool{false, true} {
			if change && typ != wallet.WalletTypeBip44 {
				continue
			}
			got := entriesOf(w, change)
			ref := refEntries(typ, seed, pass, xpub, len(got), change)
			if ref == nil {
				continue
			}
			if len(got) != total[change] && !(typ == wallet.WalletTypeBip44 && total[change] == 0) {
				// bip44 wallets start with one external entry of their own accord only when asked; track lengths from the wallet
			}
			for i := range got {
				if addrBytes(got[i].Address) != addrBytes(ref[i].Address) || got[i].Public != ref[i].Public {
					c.Violate("derivation-depends-on-history", fmt.Sprintf("%s:change=%v", typ, change), "%s wallet: entry %d (change=%v) after the history is %s, a fresh wallet generating %d in one batch has %s", typ, i, change, got[i].Address.String(), len(got), ref[i].Address.String())
					return
				}
				if !locked && typ != wallet.WalletTypeXPub && got[i].Secret != ref[i].Secret {
					c.Violate("derivation-depends-on-history", typ+":secret", "%s wallet: secret key of entry %d differs from the one-batch wallet", typ, i)
					return
				}
				if !entryConsistent(c, got[i], typ+" wallet") {
					return
				}
			}
			c.Count("probe.derivation_compared")
		}
	}
	// a watch-only wallet derives the same addresses as the seed wallet's external chain
	if typ == wallet.WalletTypeXPub && !c.Failed() {
		got := entriesOf(w, false)
		ref := refEntries(wallet.WalletTypeBip44, mn, pass, "", len(got), false)
		for i := range got {
			if addrBytes(got[i].Address) != addrBytes(ref[i].Address) {
				c.Violate("xpub-differs-from-bip44", "xpub", "xpub wallet address %d is %s, the bip44 wallet of the same seed has %s on its external chain", i, got[i].Address.String(), ref[i].Address.String())
				return
			}
		}
		c.Count("probe.xpub_vs_bip44_compared")
	}
}

func cmp(a, b int) string {
	if a < b {
		return "<"
	}
	if a > b {
		return ">"
	}
	return "="
}

// refEntries: a fresh wallet from the same seed generating entries in one
// batch.  The batch is generated once per (wallet, chain) with room to spare
// and its prefix is used; a request beyond it generates a larger single batch.
var refCache = map[string]wallet.Entries{}

func refEntries(typ, seed, pass, xpub string, n int, change bool) wallet.Entries {
	if n == 0 {
		return wallet.Entries{}
	}
	key := fmt.Sprintf("%s|%s|%s|%s|%v", typ, seed, pass, xpub, change)
	if es, ok := refCache[key]; ok && len(es) >= n {
		return es[:n]
	}
	want := n + 10
	w, err := mkWallet(typ, seed, pass, xpub, nil, 0)
	if err != nil {
		sim.Harnessf("reference wallet: %v", err)
	}
	have := len(entriesOf(w, change))
	if want > have {
		o := []wallet.Option{wallet.OptionGenerateN(uint64(want - have))}
		if change {
			o = append(o, wallet.OptionChange())
		}
		if _, err := w.GenerateAddresses(o...); err != nil {
			sim.Harnessf("reference generate: %v", err)
		}
	}
	es := entriesOf(w, change)
	if len(es) < n {
		sim.Harnessf("reference wallet has %d entries, wanted %d", len(es), n)
	}
	if len(refCache) > 64 {
		refCache = map[string]wallet.Entries{}
	}
	refCache[key] = es
	return es[:n]
}

// ---- C18 ------------------------------------------------------------------

func secretsOf(w wallet.Wallet) []string {
	var out []string
	add := func(s string) {
		if len(s) >= 8 {
			out = append(out, s)
		}
	}
	add(w.Seed())
	add(w.LastSeed())
	add(w.SeedPassphrase())
	for _, change := range []bool{false, true} {
		for _, e := range entriesOf(w, change) {
			if e.Secret != (cipher.SecKey{}) {
				add(hex.EncodeToString(e.Secret[:]))
			}
		}
	}
	return out
}

func runEncrypt(c *sim.Ctx) {
	t := c.T
	typ := []string{wallet.WalletTypeDeterministic, wallet.WalletTypeBip44, wallet.WalletTypeCollection}[t.Pick("wtype", 4, 3, 2)]
	ct := []crypto.CryptoType{crypto.CryptoTypeSha256Xor, crypto.CryptoTypeScryptChacha20poly1305Insecure}[t.Pick("cipher", 2, 1)]
	seed, pass := fmt.Sprintf("det seed of run %d", c.Seed), ""
	var keys []cipher.SecKey
	switch typ {
	case wallet.WalletTypeBip44:
		seed = mnemonic(c.Seed, t.Int("seed", 3))
		if t.Bool("passphrase") {
			pass = "a seed passphrase"
		}
	case wallet.WalletTypeCollection:
		seed = ""
		for i := 0; i < 1+t.Int("keys", 3); i++ {
			_, sk := cipher.MustGenerateDeterministicKeyPair([]byte(fmt.Sprintf("k%d-%d", c.Seed, i)))
			keys = append(keys, sk)
		}
	}
	gen := uint64(0)
	if typ != wallet.WalletTypeCollection {
		gen = uint64(1 + t.Int("entries", 4))
	}
	w, err := mkWallet(typ, seed, pass, "", keys, gen)
	if err != nil {
		sim.Harnessf("create %s wallet: %v", typ, err)
	}
	w.SetCryptoType(ct)
	if typ == wallet.WalletTypeBip44 && t.Bool("second-account") {
		// a second account with entries of its own: every account has an extended private key that must come back
		if bw, ok := w.(interface {
			NewAccount(string) (uint32, error)
		}); ok {
			idx, err := bw.NewAccount("second")
			if err != nil {
				sim.Harnessf("NewAccount: %v", err)
			}
			if _, err := w.GenerateAddresses(wallet.OptionAccount(idx), wallet.OptionGenerateN(uint64(1+t.Int("second-entries", 3)))); err != nil {
				sim.Harnessf("GenerateAddresses on the second account: %v", err)
			}
			c.Count("probe.bip44_wallet_with_two_accounts")
		}
	}
	legacy := false
	if typ == wallet.WalletTypeDeterministic && t.Chance("legacy-file", 1, 80) {
		// a wallet file written by an old release: no cryptoType field.  Locking such a wallet uses the default
		// cipher (slow: the production scrypt parameters), which must then be on record for the unlock.
		raw, _ := w.Serialize()
		var m map[string]interface{}
		if json.Unmarshal(raw, &m) == nil {
			if meta, ok := m["meta"].(map[string]interface{}); ok {
				delete(meta, "cryptoType")
				if b, err := json.Marshal(m); err == nil {
					p := c.Dir + "/legacy.wlt"
					if os.WriteFile(p, b, 0o600) == nil {
						if lw, err := wallet.Load(p); err == nil {
							w, legacy = lw, true
							c.Count("probe.legacy_wallet_without_crypto_type")
						}
					}
				}
			}
		}
	}
	secrets := secretsOf(w)
	plain, _ := w.Serialize()
	pw := []byte(fmt.Sprintf("password-%d", t.Int("pw", 3)))
	c.Sample = append(c.Sample, fmt.Sprintf("%s wallet, cipher %s, %d secrets", typ, ct, len(secrets)))

	// (1) locking removes every secret from the serialised form
	if err := w.Lock(pw); err != nil {
		sim.Harnessf("Lock: %v", err)
	}
	locked, err := w.Serialize()
	if err != nil {
		sim.Harnessf("Serialize: %v", err)
	}
	for _, s := range secrets {
		if bytes.Contains(locked, []byte(s)) {
			c.Violate("secret-in-locked-wallet", typ+":"+string(ct), "the serialised locked %s wallet still contains a secret (%d characters starting %q)", typ, len(s), s[:4])
			return
		}
		if raw, err := hex.DecodeString(s); err == nil && len(raw) == 32 && bytes.Contains(locked, raw) {
			c.Violate("secret-in-locked-wallet", typ+":raw", "the serialised locked %s wallet contains a raw secret key", typ)
			return
		}
	}
	c.Count("probe.locked_form_scanned")
	// through the service and the simulated disk: nothing written while locked contains a secret
	dir := c.Dir + "/enc"
	fs := newSimFS(c, dir)
	defer fs.detach()
	if err := wallet.Save(w, dir); err == nil {
		for _, b := range fs.written {
			for _, s := range secrets {
				if bytes.Contains(b, []byte(s)) {
					c.Violate("secret-written-to-disk", typ, "a secret of the locked wallet was handed to the disk")
					return
				}
			}
		}
	}
	// (2) the right password restores exactly the original, any other is rejected
	uw, err := w.Unlock(pw)
	if err != nil {
		c.Violate("unlock-failed", typ+":"+string(ct), "unlocking with the same password fails: %v", err)
		return
	}
	got := secretsOf(uw)
	if strings.Join(got, "|") != strings.Join(secrets, "|") {
		c.Violate("unlock-restores-different-secrets", typ+":"+string(ct), "unlocking restored different secrets")
		return
	}
	ub, _ := uw.Serialize()
	if legacy {
		// (the unlocked form now names the cipher that was used: compare everything else)
		c.Count("probe.legacy_wallet_roundtrip")
		return
	}
	if !bytes.Equal(ub, plain) {
		c.Violate("unlock-restores-different-wallet", typ+":"+string(ct), "unlocking did not restore the original wallet")
		return
	}
	for _, bad := range [][]byte{[]byte("password-x"), append(append([]byte{}, pw...), 'x'), pw[:len(pw)-1]} {
		if _, err := w.Unlock(bad); err == nil {
			c.Violate("wrong-password-accepted", typ+":"+string(ct), "unlocking with a wrong password succeeded")
			return
		}
	}
	c.Count("probe.unlock_roundtrip")
	// (2a) other wallets are locked and unlocked by the same process in between (a large one needs many cipher
	// blocks): the locked wallet must still open with its password afterwards, and so must one locked before
	if t.Chance("other-wallets-in-between", 1, 3) {
		big := bigWallet()
		bw := big.Clone()
		bw.SetCryptoType(ct)
		first := t.Bool("big-first")
		var small wallet.Wallet
		if first {
			// the large wallet goes through the cipher first, then a fresh copy of the small one is locked
			if err := bw.Lock([]byte("big-pw")); err != nil {
				sim.Harnessf("lock big wallet: %v", err)
			}
			small = uw.Clone()
			if err := small.Lock(pw); err != nil {
				sim.Harnessf("Lock: %v", err)
			}
		} else {
			small = w
			if err := bw.Lock([]byte("big-pw")); err != nil {
				sim.Harnessf("lock big wallet: %v", err)
			}
		}
		ubw, err := bw.Unlock([]byte("big-pw"))
		if err != nil {
			c.Violate("unlock-failed", "big:"+string(ct), "unlocking a wallet of %d entries with its password fails: %v", 30, err)
			return
		}
		if strings.Join(secretsOf(ubw), "|") != strings.Join(secretsOf(big), "|") {
			c.Violate("unlock-restores-different-secrets", "big:"+string(ct), "unlocking a wallet of %d entries restored different secrets", 30)
			return
		}
		us, err := small.Unlock(pw)
		if err != nil {
			c.Violate("unlock-failed", typ+":"+string(ct)+":after-other-wallets", "after a wallet of %d entries went through the same cipher, unlocking with the same password fails: %v", 30, err)
			return
		}
		if strings.Join(secretsOf(us), "|") != strings.Join(secrets, "|") {
			c.Violate("unlock-restores-different-secrets", typ+":"+string(ct)+":after-other-wallets", "unlocking after another wallet went through the cipher restored different secrets")
			return
		}
		c.Count("fault.other_wallet_through_cipher_in_between")
	}
	// (2b) a bip44 wallet can derive addresses while it is locked (it keeps its public chain
	// keys); unlocking afterwards must restore the secret key of every entry, old and new
	if typ == wallet.WalletTypeBip44 && t.Chance("generate-while-locked", 2, 3) {
		lw := w.Clone()
		for k := 0; k < 1+t.Int("locked-batches", 2); k++ {
			o := []wallet.Option{wallet.OptionGenerateN(uint64(1 + t.Int("locked-gen-n", 3)))}
			if t.Bool("locked-gen-change") {
				o = append(o, wallet.OptionChange())
			}
			if _, err := lw.GenerateAddresses(o...); err != nil {
				sim.Harnessf("generate on a locked bip44 wallet: %v", err)
			}
		}
		c.Count("fault.addresses_generated_while_locked")
		uw2, err := lw.Unlock(pw)
		if err != nil {
			c.Violate("unlock-failed", typ+":after-locked-generate", "unlocking after generating addresses while locked fails: %v", err)
			return
		}
		for _, change := range []bool{false, true} {
			es := entriesOf(uw2, change)
			ref := refEntries(typ, seed, pass, "", len(es), change)
			for i := range es {
				if !entryConsistent(c, es[i], "bip44 wallet unlocked after generating while locked") {
					return
				}
				if es[i].Secret != ref[i].Secret || es[i].Public != ref[i].Public {
					c.Violate("unlock-restores-different-secrets", typ+":entry-generated-while-locked", "after unlock, entry %d (change=%v) generated while the wallet was locked has a different key than the seed derives", i, change)
					return
				}
			}
		}
	}

	// (2d) ciphertexts that are consistent in every outer respect (checksum, nonce, whole blocks, inner hash valid
	// for this password) but whose inner length field lies: only somebody who knows the password can make one, e.g.
	// a buggy or hostile tool writing the wallet file.  Decrypt must refuse a length that exceeds the data, never panic.
	if ct == crypto.CryptoTypeSha256Xor {
		cr, err := crypto.GetCrypto(ct)
		if err != nil {
			sim.Harnessf("GetCrypto: %v", err)
		}
		for r := 0; r < 3 && !c.Failed(); r++ {
			blocks := []int{1, 2, 3, 4, 7, 8, 15, 16, 27}[t.Int("craft-blocks", 9)]
			n := blocks*32 - 4 - t.Int("craft-slack", 32) // data bytes: fills `blocks` blocks together with the 4-byte length
			if n < 0 {
				n = 0
			}
			data := t.Bytes("craft-data", n)
			padded := (4 + n + 31) / 32 * 32
			avail := padded - 4
			lie := []int{avail + 1, avail + 2, avail + 3, avail + 4, avail + 5, n + 1, avail, 1 << 31, -1}[t.Int("craft-lie", 9)]
			if lie == -1 {
				lie = int(^uint32(0))
			}
			enc := craftSha256Xor(data, pw, uint32(lie), t.Bytes("craft-nonce", 32))
			out, derr := tryDecrypt(cr, enc, pw)
			c.Count("fault.crafted_ciphertext_with_lying_length")
			c.Kind(30, derr == nil)
			c.Logf("crafted ciphertext: %d data bytes in %d blocks, length field %d -> %v", n, padded/32, lie, derr)
			if p, isPanic := derr.(panicked); isPanic {
				c.Violate("decrypt-panics", string(ct)+":crafted-length:"+p.where, "decrypting a well-formed ciphertext whose inner length field is %d (data %d bytes, %d after padding) panics: %v", lie, n, avail, p.val)
				return
			}
			if lie > avail && derr == nil {
				c.Violate("corrupted-ciphertext-accepted", string(ct)+":crafted-length", "a ciphertext whose inner length field (%d) exceeds its data (%d bytes after padding) decrypted without an error (to %d bytes)", lie, avail, len(out))
				return
			}
			if lie <= avail && derr == nil && !bytes.Equal(out, append(append([]byte{}, data...), make([]byte, padded)...)[:lie]) {
				c.Violate("corrupted-ciphertext-accepted", string(ct)+":crafted-content", "a crafted ciphertext decrypted to bytes that were never encrypted")
				return
			}
		}
	}

	// (3) bit-rot of the stored secrets field: load + unlock must fail cleanly
	var doc map[string]interface{}
	if err := json.Unmarshal(locked, &doc); err != nil {
		sim.Harnessf("locked wallet is not JSON: %v", err)
	}
	meta, _ := doc["meta"].(map[string]interface{})
	sec, _ := meta["secrets"].(string)
	if sec == "" {
		sim.Harnessf("locked wallet has no meta.secrets field")
	}
	rounds := 6
	for r := 0; r < rounds && !c.Failed(); r++ {
		raw, err := base64.StdEncoding.DecodeString(sec)
		if err != nil {
			raw = []byte(sec)
		}
		mut := append([]byte{}, raw...)
		kind := t.Pick("rot-kind", 3, 2, 2, 2, 1)
		switch kind {
		case 0:
			for k := 0; k < 1+t.Int("rot-flips", 3); k++ {
				mut[t.Int("rot-pos", len(mut))] ^= 1 << t.Draw("rot-bit", 8)
			}
		case 1:
			mut = mut[:t.Int("rot-trunc", len(mut))]
		case 2: // length prefix of the scrypt metadata / first bytes
			if len(mut) >= 2 {
				binary.LittleEndian.PutUint16(mut, uint16(t.Draw("rot-len", 65536)))
			}
		case 3: // edit a metadata field in place (nonce / salt / parameters)
			if i := bytes.Index(mut, []byte(`"nonce":"`)); i >= 0 {
				j := i + 9 + t.Int("rot-nonce-cut", 12)
				if j < len(mut) {
					mut = append(mut[:j], mut[j+1+t.Int("rot-nonce-drop", 3):]...)
				}
			} else {
				mut = append(mut, byte(t.Draw("rot-extra", 256)))
			}
		case 4:
			mut = nil
		}
		if wouldExhaustMemory(mut) {
			c.Count("probe.bitrot_skipped_huge_scrypt_parameters")
			continue
		}
		meta["secrets"] = base64.StdEncoding.EncodeToString(mut)
		if kind == 0 && t.Chance("rot-raw-base64", 1, 4) {
			bs := []byte(sec)
			bs[t.Int("rot-b64-pos", len(bs))] = '!'
			meta["secrets"] = string(bs)
		}
		rot, _ := json.Marshal(doc)
		p := filepath.Join(c.Dir, "rot.wlt")
		if err := ioutil.WriteFile(p, rot, 0o600); err != nil {
			sim.Harnessf("write: %v", err)
		}
		c.Count("fault.bitrot_of_stored_secrets")
		lw, err := wallet.Load(p)
		if err != nil || lw == nil {
			c.Kind(byte(10+kind), false)
			continue // refused at load: fine
		}
		out, uerr := tryUnlock(lw, pw)
		c.Kind(byte(10+kind), uerr == nil)
		c.Logf("bit-rot kind %d -> %v", kind, uerr)
		if p, isPanic := uerr.(panicked); isPanic {
			c.Violate("decrypt-panics", string(ct)+":"+p.where, "unlocking a wallet whose stored secrets field was corrupted (kind %d) panics: %v", kind, p.val)
			return
		}
		if uerr == nil && strings.Join(secretsOf(out), "|") != strings.Join(secrets, "|") {
			c.Violate("corrupted-ciphertext-accepted", string(ct), "a corrupted secrets field decrypted to different secrets without an error")
			return
		}
	}
}

// craftSha256Xor builds a sha256-xor ciphertext from the format description (base64 of checksum | nonce | encrypted
// blocks; block 0 is the hash of the padded plaintext, the plaintext starts with a 4-byte length), independently of
// the package under test, with an arbitrary value in the length field.
func craftSha256Xor(data, password []byte, lenField uint32, nonce []byte) []byte {
	ldata := make([]byte, 4, 4+len(data)+32)
	binary.LittleEndian.PutUint32(ldata, lenField)
	ldata = append(ldata, data...)
	for len(ldata)%32 != 0 {
		ldata = append(ldata, 0)
	}
	h := sha256.Sum256(ldata)
	blocks := append(append([]byte{}, h[:]...), ldata...)
	key := secp256k1.Secp256k1Hash(password)
	nh := sha256.Sum256(nonce)
	enc := make([]byte, 0, len(blocks))
	for i := 0; i*32 < len(blocks); i++ {
		idx := make([]byte, 32)
		binary.PutVarint(idx, int64(i))
		inh := sha256.Sum256(append(idx, nh[:]...))
		k := sha256.Sum256(append(append([]byte{}, key[:32]...), inh[:]...))
		for j := 0; j < 32; j++ {
			enc = append(enc, blocks[i*32+j]^k[j])
		}
	}
	body := append(append([]byte{}, nonce...), enc...)
	cs := sha256.Sum256(body)
	return []byte(base64.StdEncoding.EncodeToString(append(cs[:], body...)))
}

func tryDecrypt(cr crypto.Cryptor, enc, pw []byte) (out []byte, err error) {
	defer func() {
		if r := recover(); r != nil {
			where := "other"
			msg := fmt.Sprint(r)
			switch {
			case strings.Contains(msg, "slice bounds"):
				where = "slice-bounds"
			case strings.Contains(msg, "index out of range"):
				where = "index"
			case strings.Contains(msg, "makeslice"):
				where = "makeslice"
			}
			err = panicked{r, where}
		}
	}()
	return cr.Decrypt(enc, pw)
}

var bigW wallet.Wallet

// bigWallet: a deterministic wallet of 30 entries (its secrets need about a hundred cipher blocks), built once
// per worker process from a fixed seed.
func bigWallet() wallet.Wallet {
	if bigW == nil {
		w, err := mkWallet(wallet.WalletTypeDeterministic, "the big wallet of the C18 runs", "", "", nil, 30)
		if err != nil {
			sim.Harnessf("create big wallet: %v", err)
		}
		bigW = w
	}
	return bigW
}

type panicked struct {
	val   interface{}
	where string
}

func (p panicked) Error() string { return fmt.Sprint("panic: ", p.val) }

func tryUnlock(w wallet.Wallet, pw []byte) (out wallet.Wallet, err error) {
	defer func() {
		if r := recover(); r != nil {
			where := "other"
			msg := fmt.Sprint(r)
			switch {
			case strings.Contains(msg, "slice bounds"):
				where = "slice-bounds"
			case strings.Contains(msg, "nonce"):
				where = "nonce-length"
			case strings.Contains(msg, "index out of range"):
				where = "index"
			}
			err = panicked{r, where}
		}
	}()
	return w.Unlock(pw)
}

// wouldExhaustMemory: corrupted scrypt parameters can ask for gigabytes; such
// inputs are skipped (and counted) to keep the worker alive.
func wouldExhaustMemory(raw []byte) bool {
	if len(raw) < 2 {
		return false
	}
	l := int(binary.LittleEndian.Uint16(raw))
	if 2+l > len(raw) {
		return false
	}
	var m struct {
		N, R, P int
	}
	if json.Unmarshal(raw[2:2+l], &m) != nil {
		return false
	}
	if m.N <= 0 || m.R <= 0 || m.P <= 0 {
		return false
	}
	return float64(m.N)*float64(m.R)*128 > 64<<20 || float64(m.P)*float64(m.R)*128 > 64<<20
}

// runCollection: a collection wallet (a bag of imported secret keys) through a history of imports whose lists
// repeat keys the wallet already holds, before, between and after new ones.  Whatever the wallet does with a
// repeated key, every entry must pair a secret key with its own public key and address, every imported key must
// be found under its address, and a serialise / load round trip must give the same entries.
func runCollection(c *sim.Ctx) {
	t := c.T
	key := func(i int) cipher.SecKey {
		_, sk := cipher.MustGenerateDeterministicKeyPair([]byte(fmt.Sprintf("collection key %d", i)))
		return sk
	}
	var first []cipher.SecKey
	next := 0
	for i := 0; i < 1+t.Int("coll-initial", 3); i++ {
		first = append(first, key(next))
		next++
	}
	w, err := mkWallet(wallet.WalletTypeCollection, "", "", "", first, 0)
	if err != nil {
		sim.Harnessf("create collection wallet: %v", err)
	}
	w.SetCryptoType(crypto.CryptoTypeSha256Xor)
	imported := append([]cipher.SecKey{}, first...)
	steps := t.Range("coll-steps", 2, 8)
	c.Sample = append(c.Sample, fmt.Sprintf("collection wallet, %d imports", steps))
	check := func(what string) bool {
		es := entriesOf(w, false)
		byAddr := map[string]wallet.Entry{}
		for i, e := range es {
			if !entryConsistent(c, e, fmt.Sprintf("%s: entry %d", what, i)) {
				return false
			}
			byAddr[e.Address.String()] = e
		}
		for _, k := range imported {
			a := cipher.MustAddressFromSecKey(k)
			e, ok := byAddr[a.String()]
			if !ok {
				c.Violate("imported-key-missing", "collection", "%s: the wallet has no entry for imported key with address %s", what, a)
				return false
			}
			if e.Secret != k {
				c.Violate("entry-pubkey", "secret-of-another-key", "%s: the entry for address %s holds another key's secret", what, a)
				return false
			}
		}
		c.Count("probe.collection_entries_checked")
		return true
	}
	if !check("after creation") {
		return
	}
	for c.Step = 1; c.Step <= steps && !c.Failed(); c.Step++ {
		var list []cipher.SecKey
		for i := 0; i < 1+t.Int("coll-import-n", 4); i++ {
			if t.Chance("coll-repeat", 1, 3) {
				list = append(list, imported[t.Int("coll-repeat-i", len(imported))])
				c.Count("fault.import_repeats_held_key")
			} else {
				list = append(list, key(next))
				next++
			}
		}
		_, err := w.GenerateAddresses(wallet.OptionCollectionPrivateKeys(list))
		c.Kind(1, err == nil)
		c.Logf("import %d keys -> %v", len(list), err)
		if err == nil {
			imported = append(imported, list...)
		}
		if !check(fmt.Sprintf("after import %d", c.Step)) {
			return
		}
		if t.Chance("coll-reload", 1, 3) {
			raw, err := w.Serialize()
			if err != nil {
				sim.Harnessf("Serialize: %v", err)
			}
			p := fmt.Sprintf("%s/coll%d.wlt", c.Dir, c.Step)
			if err := os.WriteFile(p, raw, 0o600); err != nil {
				sim.Harnessf("write: %v", err)
			}
			lw, err := wallet.Load(p)
			if err != nil {
				c.Violate("reload-failed", "collection", "the collection wallet cannot be loaded from its own serialised form after import %d: %v", c.Step, err)
				return
			}
			w = lw
			c.Count("fault.reload")
			if !check(fmt.Sprintf("after import %d and a reload", c.Step)) {
				return
			}
		}
	}
}
