// Package e3 is engine E3 "fssim": the wallet service, the key-value storage
// and the wallet types on a simulated disk.  Hook H7 (util/file) routes the
// operations SaveBinary issues to simFS, which applies them to a per-run real
// directory (readers need no seam), records every primitive step with the
// bytes involved, can fail a step with a short write, and can materialise the
// directory as it would look after a crash at any point of any step.
package e3

import (
	"errors"
	"fmt"
	"io"
	"io/ioutil"
	"log"
	"os"
	"path/filepath"
	"sort"

	"github.com/skycoin/skycoin/src/util/file"
	"github.com/skycoin/skycoin/src/util/logging"

	"verifsim/sim"
)

func init() {
	logging.Disable()
	log.SetOutput(io.Discard)
}

type fsOp struct {
	kind string // "write", "remove", "rename"
	name string // base name
	to   string // rename target
	data []byte
}

type simFS struct {
	c   *sim.Ctx
	dir string
	// per service-operation recording
	ops     []fsOp
	entry   map[string][]byte // directory content at the entry of the first seamed op of this operation
	failAt  int               // 1-based index of the seamed op to fail in this operation (0 = none)
	failCut int               // bytes written before the error (-1: fail before creating the file)
	seen    int
	fired   bool
	// everything ever handed to the disk, for the content invariant of C18
	written [][]byte
}

var errDisk = errors.New("simulated disk error: no space left on device")

func newSimFS(c *sim.Ctx, dir string) *simFS {
	fs := &simFS{c: c, dir: dir}
	file.VerifWriteFile = fs.writeFile
	file.VerifRemove = fs.remove
	file.VerifRename = fs.rename
	return fs
}

func (fs *simFS) detach() {
	file.VerifWriteFile, file.VerifRemove, file.VerifRename = nil, nil, nil
}

// begin starts recording a new service operation.
func (fs *simFS) begin(failAt, failCut int) {
	fs.ops, fs.entry, fs.seen, fs.fired = nil, nil, 0, false
	fs.failAt, fs.failCut = failAt, failCut
}

func (fs *simFS) snap() map[string][]byte { return snapshotDir(fs.dir) }

func snapshotDir(dir string) map[string][]byte {
	out := map[string][]byte{}
	es, err := ioutil.ReadDir(dir)
	if err != nil {
		return out
	}
	for _, e := range es {
		mode := e.Mode()
		if mode&os.ModeSymlink != 0 {
			// a link to a regular file elsewhere is, for every reader, a file of that name with that content
			if st, err := os.Stat(filepath.Join(dir, e.Name())); err == nil {
				mode = st.Mode()
			}
		}
		if mode.IsRegular() {
			b, err := ioutil.ReadFile(filepath.Join(dir, e.Name()))
			if err == nil {
				out[e.Name()] = b
			}
		}
	}
	return out
}

func (fs *simFS) enter() {
	if fs.entry == nil {
		fs.entry = fs.snap()
	}
	fs.seen++
}

func (fs *simFS) inDir(name string) bool { return filepath.Dir(name) == filepath.Clean(fs.dir) }

func (fs *simFS) writeFile(name string, data []byte, perm os.FileMode) error {
	if !fs.inDir(name) {
		return ioutil.WriteFile(name, data, perm)
	}
	fs.enter()
	fs.ops = append(fs.ops, fsOp{kind: "write", name: filepath.Base(name), data: append([]byte{}, data...)})
	fs.written = append(fs.written, append([]byte{}, data...))
	if fs.failAt == fs.seen {
		fs.fired = true
		if fs.failCut < 0 {
			fs.c.Count("fault.disk_error_before_write")
			fs.ops[len(fs.ops)-1].data = nil
			fs.ops[len(fs.ops)-1].kind = "noop"
			return errDisk
		}
		cut := fs.failCut
		if cut > len(data) {
			cut = len(data)
		}
		fs.c.Count("fault.disk_error_short_write")
		_ = ioutil.WriteFile(name, data[:cut], perm) // open(O_TRUNC) + short write, then the error
		fs.ops[len(fs.ops)-1].data = append([]byte{}, data[:cut]...)
		return errDisk
	}
	return ioutil.WriteFile(name, data, perm)
}

func (fs *simFS) remove(name string) error {
	if !fs.inDir(name) {
		return os.Remove(name)
	}
	fs.enter()
	fs.ops = append(fs.ops, fsOp{kind: "remove", name: filepath.Base(name)})
	if fs.failAt == fs.seen {
		fs.fired = true
		fs.c.Count("fault.disk_error_remove")
		fs.ops[len(fs.ops)-1].kind = "noop"
		return errDisk
	}
	return os.Remove(name)
}

func (fs *simFS) rename(oldpath, newpath string) error {
	if !fs.inDir(oldpath) {
		return os.Rename(oldpath, newpath)
	}
	fs.enter()
	fs.ops = append(fs.ops, fsOp{kind: "rename", name: filepath.Base(oldpath), to: filepath.Base(newpath)})
	if fs.failAt == fs.seen {
		fs.fired = true
		fs.c.Count("fault.disk_error_rename")
		fs.ops[len(fs.ops)-1].kind = "noop"
		return errDisk
	}
	return os.Rename(oldpath, newpath)
}

// crashState is the directory as a crash would leave it.
type crashState struct {
	files map[string][]byte
	label string
}

func cloneDir(m map[string][]byte) map[string][]byte {
	o := make(map[string][]byte, len(m))
	for k, v := range m {
		o[k] = v
	}
	return o
}

// crashStates enumerates, under the ordered-write model, every prefix of the
// recorded primitive steps of the last operation: before each step, after the
// open(O_TRUNC) of each write, the write cut at 1, half, len-1 and
// tape-chosen offsets, and after each completed step.
func (fs *simFS) crashStates() []crashState {
	if fs.entry == nil {
		return nil
	}
	cur := cloneDir(fs.entry)
	states := []crashState{{cloneDir(cur), "before the first file operation of the save"}}
	for i, op := range fs.ops {
		switch op.kind {
		case "write":
			trunc := cloneDir(cur)
			trunc[op.name] = []byte{}
			states = append(states, crashState{trunc, fmt.Sprintf("step %d: %s opened with O_TRUNC, nothing written", i+1, op.name)})
			cuts := map[int]bool{}
			if n := len(op.data); n > 1 {
				for _, k := range []int{1, n / 2, n - 1, 1 + fs.c.T.Int("crash-cut", n-1)} {
					if k > 0 && k < n {
						cuts[k] = true
					}
				}
			}
			ks := make([]int, 0, len(cuts))
			for k := range cuts {
				ks = append(ks, k)
			}
			sort.Ints(ks)
			for _, k := range ks {
				t := cloneDir(cur)
				t[op.name] = op.data[:k]
				states = append(states, crashState{t, fmt.Sprintf("step %d: write of %s torn after %d of %d bytes", i+1, op.name, k, len(op.data))})
				fs.c.Count("fault.crash_torn_write")
			}
			cur[op.name] = op.data
		case "remove":
			delete(cur, op.name)
		case "rename":
			if b, ok := cur[op.name]; ok {
				cur[op.to] = b
				delete(cur, op.name)
			}
		case "noop":
			continue
		}
		states = append(states, crashState{cloneDir(cur), fmt.Sprintf("after step %d (%s %s)", i+1, op.kind, op.name)})
		fs.c.Count("fault.crash_at_step_boundary")
	}
	return states
}

// materialise writes a crash state into a fresh directory.
func materialise(dir string, st crashState) {
	_ = os.RemoveAll(dir)
	if err := os.MkdirAll(dir, 0o700); err != nil {
		sim.Harnessf("mkdir: %v", err)
	}
	for name, b := range st.files {
		if err := ioutil.WriteFile(filepath.Join(dir, name), b, 0o600); err != nil {
			sim.Harnessf("materialise: %v", err)
		}
	}
}
