package e3

import (
	"fmt"
	"os"
	"path/filepath"
	"sort"
	"strings"

	"github.com/skycoin/skycoin/src/kvstorage"

	"verifsim/sim"
)

func kvView(dir string) (map[string]string, error) {
	m, err := kvstorage.NewManager(kvstorage.Config{StorageDir: dir, EnableStorageAPI: true,
		EnabledStorages: []kvstorage.Type{kvstorage.TypeTxIDNotes, kvstorage.TypeGeneral}})
	if err != nil {
		return nil, err
	}
	out := map[string]string{}
	for _, t := range []kvstorage.Type{kvstorage.TypeTxIDNotes, kvstorage.TypeGeneral} {
		vals, err := m.GetAllStorageValues(t)
		if err != nil {
			return nil, err
		}
		ks := make([]string, 0, len(vals))
		for k := range vals {
			ks = append(ks, k)
		}
		sort.Strings(ks)
		var sb strings.Builder
		for _, k := range ks {
			fmt.Fprintf(&sb, "%q=%q;", k, vals[k])
		}
		out[string(t)] = sb.String()
	}
	return out, nil
}

// runKV: key-value storage histories with a crash at every step of every save (C20).
func runKV(c *sim.Ctx) {
	dir := c.Dir + "/kv"
	fs := newSimFS(c, dir)
	defer fs.detach()
	t := c.T
	fs.begin(0, 0)
	m, err := kvstorage.NewManager(kvstorage.Config{StorageDir: dir, EnableStorageAPI: true,
		EnabledStorages: []kvstorage.Type{kvstorage.TypeTxIDNotes, kvstorage.TypeGeneral}})
	if err != nil {
		sim.Harnessf("kv NewManager on an empty directory: %v", err)
	}
	// the very first start writes the (empty) storage files: a crash anywhere in there must not keep the manager
	// from starting the next time
	for _, st := range fs.crashStates() {
		c.Count("crash.states")
		d := fmt.Sprintf("%s/kvfirst", c.Dir)
		materialise(d, st)
		if _, err := kvView(d); err != nil {
			c.Violate("crash-node-does-not-start", "kv:first-start:"+stateKind(st.label), "after a crash during the first start of the storage manager at [%s] it cannot start: %v", st.label, err)
			return
		}
	}
	steps := t.Range("kv-steps", 4, 25)
	c.Sample = append(c.Sample, fmt.Sprintf("kv storage history of %d operations", steps))
	scratch := 0
	view := func(files map[string][]byte) (map[string]string, error) {
		scratch++
		d := fmt.Sprintf("%s/kvview%d", c.Dir, scratch)
		materialise(d, crashState{files: files})
		return kvView(d)
	}
	for c.Step = 1; c.Step <= steps && !c.Failed(); c.Step++ {
		typ := []kvstorage.Type{kvstorage.TypeTxIDNotes, kvstorage.TypeGeneral}[t.Int("kv-type", 2)]
		key := fmt.Sprintf("key-%d", t.Int("kv-key", 6))
		if t.Chance("kv-symlink", 1, 10) {
			// a rare but legal layout: the operator keeps a storage file in another folder (a synced one, say) and
			// leaves a symbolic link in the storage directory
			fn := filepath.Join(dir, string(typ)+".json")
			if st, err := os.Lstat(fn); err == nil && st.Mode().IsRegular() {
				ldir := c.Dir + "/kvlinked"
				_ = os.MkdirAll(ldir, 0o700)
				target := filepath.Join(ldir, fmt.Sprintf("%s-%d.json", typ, c.Step))
				if os.Rename(fn, target) == nil && os.Symlink(target, fn) == nil {
					c.Count("probe.kv_file_behind_symlink")
				}
			}
		}
		diskBefore := fs.snap()
		fs.begin(0, 0)
		var label string
		var err error
		var redo func(m2 *kvstorage.Manager) error
		if t.Chance("kv-remove", 1, 3) {
			label = "remove"
			err = m.RemoveStorageValue(typ, key)
			redo = func(m2 *kvstorage.Manager) error { return m2.RemoveStorageValue(typ, key) }
		} else {
			label = "add"
			val := strings.Repeat("v", 1+t.Int("kv-val-len", 300)) + fmt.Sprint(c.Step)
			err = m.AddStorageValue(typ, key, val)
			redo = func(m2 *kvstorage.Manager) error { return m2.AddStorageValue(typ, key, val) }
		}
		opErr := err
		retryAt := t.Int("kv-retry-state", 64) // which crash state of this operation is recovered from and retried
		c.Kind(byte(len(label)), err == nil)
		c.Logf("kv %s %s %s -> %v (fs ops %d)", label, typ, key, err, len(fs.ops))
		if len(fs.ops) == 0 {
			continue
		}
		diskAfter := fs.snap()
		before, errB := view(diskBefore)
		after, errA := view(diskAfter)
		if errB != nil || errA != nil {
			sim.Harnessf("kv storage unloadable without a crash: %v %v", errB, errA)
		}
		states := fs.crashStates()
		for si, st := range states {
			c.Count("crash.states")
			c.State(uint64(len(st.label)), uint64(c.Step), uint64(len(st.files)))
			got, err := view(st.files)
			if err == nil && opErr == nil && si == retryAt%len(states) {
				// recover and retry: the node restarts on the crash state, the client repeats the request that was
				// interrupted, the node restarts once more: the storage must hold what the completed operation gives
				scratch++
				d := fmt.Sprintf("%s/kvretry%d", c.Dir, scratch)
				materialise(d, st)
				m2, merr := kvstorage.NewManager(kvstorage.Config{StorageDir: d, EnableStorageAPI: true,
					EnabledStorages: []kvstorage.Type{kvstorage.TypeTxIDNotes, kvstorage.TypeGeneral}})
				if merr == nil {
					rerr := redo(m2)
					c.Count("fault.crash_recover_retry")
					again, verr := kvView(d)
					if verr != nil {
						c.Violate("crash-node-does-not-start", "kv:after-retry:"+stateKind(st.label), "crash during kv %s at [%s], restart, the same request again (%v), restart: the storage manager cannot start: %v", label, st.label, rerr, verr)
						return
					}
					for _, ty := range []string{string(kvstorage.TypeTxIDNotes), string(kvstorage.TypeGeneral)} {
						want := after[ty]
						if rerr != nil {
							// the repeated request was refused (e.g. removing a key that the crash state no longer has): nothing may change
							want = got[ty]
						}
						if again[ty] != want {
							lost := "changed"
							if again[ty] == "" {
								lost = "reset-to-empty"
							}
							c.Violate("crash-retry-content", "kv:"+lost+":"+stateKind(st.label), "crash during kv %s at [%s], restart, the same request again (%v), restart: storage %q does not hold the content of the completed operation (%s)", label, st.label, rerr, ty, lost)
							return
						}
					}
				}
			}
			if err != nil {
				c.Violate("crash-node-does-not-start", "kv:"+stateKind(st.label), "after a crash during kv %s at [%s] the storage manager cannot start: %v", label, st.label, err)
				return
			}
			for _, ty := range []string{string(kvstorage.TypeTxIDNotes), string(kvstorage.TypeGeneral)} {
				if got[ty] != before[ty] && got[ty] != after[ty] {
					lost := "changed"
					if got[ty] == "" {
						lost = "reset-to-empty"
					}
					c.Violate("crash-kv-content", "kv:"+lost+":"+stateKind(st.label), "after a crash during kv %s at [%s] storage %q holds neither its previous nor its new content (%s)", label, st.label, ty, lost)
					return
				}
			}
		}
	}
}
