package e3

import (
	"fmt"
	"sort"
	"strings"

	"github.com/skycoin/skycoin/src/kvstorage"

	"verifsim/sim"
)

func kvView(dir string) (map[string]string, error) {
	m, err := kvstorage.NewManager(kvstorage.Config{StorageDir: dir, EnableStorageAPI: true,
		EnabledStorages: []kvstorage.Type{kvstorage.TypeTxIDNotes, kvstorage.TypeGeneral}})
	if err != nil {
		return nil, err
	}
	out := map[string]string{}
	for _, t := range []kvstorage.Type{kvstorage.TypeTxIDNotes, kvstorage.TypeGeneral} {
		vals, err := m.GetAllStorageValues(t)
		if err != nil {
			return nil, err
		}
		ks := make([]string, 0, len(vals))
		for k := range vals {
			ks = append(ks, k)
		}
		sort.Strings(ks)
		var sb strings.Builder
		for _, k := range ks {
			fmt.Fprintf(&sb, "%q=%q;", k, vals[k])
		}
		out[string(t)] = sb.String()
	}
	return out, nil
}

// runKV: key-value storage histories with a crash at every step of every save (C20).
func runKV(c *sim.Ctx) {
	dir := c.Dir + "/kv"
	fs := newSimFS(c, dir)
	defer fs.detach()
	t := c.T
	fs.begin(0, 0)
	m, err := kvstorage.NewManager(kvstorage.Config{StorageDir: dir, EnableStorageAPI: true,
		EnabledStorages: []kvstorage.Type{kvstorage.TypeTxIDNotes, kvstorage.TypeGeneral}})
	if err != nil {
		sim.Harnessf("kv NewManager on an empty directory: %v", err)
	}
	steps := t.Range("kv-steps", 4, 25)
	c.Sample = append(c.Sample, fmt.Sprintf("kv storage history of %d operations", steps))
	scratch := 0
	view := func(files map[string][]byte) (map[string]string, error) {
		scratch++
		d := fmt.Sprintf("%s/kvview%d", c.Dir, scratch)
		materialise(d, crashState{files: files})
		return kvView(d)
	}
	for c.Step = 1; c.Step <= steps && !c.Failed(); c.Step++ {
		typ := []kvstorage.Type{kvstorage.TypeTxIDNotes, kvstorage.TypeGeneral}[t.Int("kv-type", 2)]
		key := fmt.Sprintf("key-%d", t.Int("kv-key", 6))
		diskBefore := fs.snap()
		fs.begin(0, 0)
		var label string
		var err error
		if t.Chance("kv-remove", 1, 3) {
			label = "remove"
			err = m.RemoveStorageValue(typ, key)
		} else {
			label = "add"
			val := strings.Repeat("v", 1+t.Int("kv-val-len", 300)) + fmt.Sprint(c.Step)
			err = m.AddStorageValue(typ, key, val)
		}
		c.Kind(byte(len(label)), err == nil)
		c.Logf("kv %s %s %s -> %v (fs ops %d)", label, typ, key, err, len(fs.ops))
		if len(fs.ops) == 0 {
			continue
		}
		diskAfter := fs.snap()
		before, errB := view(diskBefore)
		after, errA := view(diskAfter)
		if errB != nil || errA != nil {
			sim.Harnessf("kv storage unloadable without a crash: %v %v", errB, errA)
		}
		for _, st := range fs.crashStates() {
			c.Count("crash.states")
			c.State(uint64(len(st.label)), uint64(c.Step), uint64(len(st.files)))
			got, err := view(st.files)
			if err != nil {
				c.Violate("crash-node-does-not-start", "kv:"+stateKind(st.label), "after a crash during kv %s at [%s] the storage manager cannot start: %v", label, st.label, err)
				return
			}
			for _, ty := range []string{string(kvstorage.TypeTxIDNotes), string(kvstorage.TypeGeneral)} {
				if got[ty] != before[ty] && got[ty] != after[ty] {
					lost := "changed"
					if got[ty] == "" {
						lost = "reset-to-empty"
					}
					c.Violate("crash-kv-content", "kv:"+lost+":"+stateKind(st.label), "after a crash during kv %s at [%s] storage %q holds neither its previous nor its new content (%s)", label, st.label, ty, lost)
					return
				}
			}
		}
	}
}
