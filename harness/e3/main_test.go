package e3

import (
	"testing"

	"verifsim/sim"
)

func runC20(c *sim.Ctx) {
	if c.T.Chance("kv-history", 1, 3) {
		runKV(c)
	} else {
		runService(c)
	}
}

func TestWorker(t *testing.T) {
	ops := func(c *sim.Ctx) bool { return c.Counters["op.ok"] >= 3 }
	sim.WorkerMain(t, map[string]sim.Engine{
		"C17": {Run: runDerive, Nontrivial: func(c *sim.Ctx) bool { return c.Counters["probe.derivation_compared"] >= 3 }},
		"C18": {Run: runEncrypt, Nontrivial: func(c *sim.Ctx) bool { return c.Counters["fault.bitrot_of_stored_secrets"] >= 1 }},
		"C19": {Run: runService, Nontrivial: ops},
		"C20": {Run: runC20, Nontrivial: func(c *sim.Ctx) bool { return c.Counters["crash.states"] >= 4 }},
	})
}
