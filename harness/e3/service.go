package e3

import (
	"bytes"
	"crypto/sha256"
	"errors"
	"fmt"
	"sort"
	"strings"
	"time"

	"github.com/skycoin/skycoin/src/cipher"
	"github.com/skycoin/skycoin/src/cipher/bip39"
	"github.com/skycoin/skycoin/src/cipher/bip44"
	"github.com/skycoin/skycoin/src/cipher/crypto"
	"github.com/skycoin/skycoin/src/wallet"
	_ "github.com/skycoin/skycoin/src/wallet/bip44wallet"
	_ "github.com/skycoin/skycoin/src/wallet/collection"
	_ "github.com/skycoin/skycoin/src/wallet/deterministic"
	_ "github.com/skycoin/skycoin/src/wallet/xpubwallet"

	"verifsim/sim"
)

// scripted activity oracle for address scanning
type scriptedTF struct {
	threshold byte
	fail      bool // fault: the activity lookup (a database query in the node) fails
}

func (s scriptedTF) AddressesActivity(addrs []cipher.Addresser) ([]bool, error) {
	if s.fail {
		return nil, errors.New("simulated failure of the address activity lookup")
	}
	out := make([]bool, len(addrs))
	for i, a := range addrs {
		h := sha256.Sum256([]byte(a.String()))
		out[i] = h[0] < s.threshold
	}
	return out, nil
}

type svcSim struct {
	c     *sim.Ctx
	prop  string
	dir   string
	fs    *simFS
	svc   *wallet.Service
	cfg   wallet.Config
	seeds map[string][]string // per type
	xpubs []string
	pws   [][]byte
	tf    scriptedTF
	// what the harness knows about wallets it created
	pwOf           map[string][]byte // filename -> password it was last encrypted with
	unloaded       map[string]bool
	names          []string
	redo           func(svc *wallet.Service) error // repeats the last operation on another service (nil: result not a function of the arguments)
	lastOpOK       bool
	redoIdempotent bool
	scratch        int
}

func mnemonic(seed uint64, i int) string {
	h := sha256.Sum256([]byte(fmt.Sprintf("verif-mnemonic-%d-%d", seed, i)))
	m, err := bip39.NewMnemonic(h[:16])
	if err != nil {
		sim.Harnessf("mnemonic: %v", err)
	}
	return m
}

func xpubOf(mn, pass string) string {
	seed, err := bip39.NewSeed(mn, pass)
	if err != nil {
		sim.Harnessf("bip39 seed: %v", err)
	}
	coin, err := bip44.NewCoin(seed, bip44.CoinTypeSkycoin)
	if err != nil {
		sim.Harnessf("bip44 coin: %v", err)
	}
	acct, err := coin.Account(0)
	if err != nil {
		sim.Harnessf("bip44 account: %v", err)
	}
	ext, err := acct.External()
	if err != nil {
		sim.Harnessf("bip44 external: %v", err)
	}
	return ext.PublicKey().String()
}

func newSvcSim(c *sim.Ctx) *svcSim {
	s := &svcSim{c: c, prop: c.Property, dir: c.Dir + "/wallets", pwOf: map[string][]byte{}, unloaded: map[string]bool{}}
	bc := bip44.CoinTypeSkycoin
	s.cfg = wallet.Config{WalletDir: s.dir, CryptoType: crypto.CryptoTypeSha256Xor, EnableWalletAPI: true, EnableSeedAPI: true, Bip44Coin: &bc}
	s.seeds = map[string][]string{}
	for i := 0; i < 3; i++ {
		s.seeds[wallet.WalletTypeDeterministic] = append(s.seeds[wallet.WalletTypeDeterministic], fmt.Sprintf("det seed %d of run %d", i, c.Seed))
		mn := mnemonic(c.Seed, i)
		s.seeds[wallet.WalletTypeBip44] = append(s.seeds[wallet.WalletTypeBip44], mn)
		s.xpubs = append(s.xpubs, xpubOf(mn, ""))
	}
	s.pws = [][]byte{[]byte("pw-one"), []byte("pw-two")}
	s.tf = scriptedTF{threshold: byte(c.T.Int("scan-activity", 200))}
	s.fs = newSimFS(c, s.dir)
	var err error
	s.svc, err = wallet.NewService(s.cfg)
	if err != nil {
		sim.Harnessf("NewService on an empty directory: %v", err)
	}
	return s
}

func (s *svcSim) pickName() string {
	t := s.c.T
	if len(s.names) == 0 || t.Chance("unknown-wallet", 1, 15) {
		return "nope.wlt"
	}
	return s.names[t.Int("wallet", len(s.names))]
}

func (s *svcSim) pickPw(name string) []byte {
	switch s.c.T.Pick("pw", 6, 2, 1) {
	case 1:
		return []byte("wrong-password")
	case 2:
		return nil
	}
	if p, ok := s.pwOf[name]; ok {
		return p
	}
	return nil
}

// memView serialises every wallet in memory.
func (s *svcSim) memView(svc *wallet.Service) map[string]string {
	ws, err := svc.GetWallets()
	if err != nil {
		sim.Harnessf("GetWallets: %v", err)
	}
	out := map[string]string{}
	for name, w := range ws {
		b, err := w.Serialize()
		if err != nil {
			sim.Harnessf("Serialize: %v", err)
		}
		tag := ""
		if w.IsTemp() {
			tag = "temp:"
		}
		out[name] = tag + string(b)
	}
	return out
}

func wltFiles(m map[string][]byte) map[string]string {
	out := map[string]string{}
	for k, v := range m {
		if strings.HasSuffix(k, wallet.WalletExt) {
			out[k] = string(v)
		}
	}
	return out
}

func sameStrMap(a, b map[string]string) (string, bool) {
	for k, v := range a {
		if bv, ok := b[k]; !ok {
			return "missing:" + k, false
		} else if bv != v {
			return "differs:" + k, false
		}
	}
	for k := range b {
		if _, ok := a[k]; !ok {
			return "extra:" + k, false
		}
	}
	return "", true
}

// one service operation; returns a label and the operation's error
func (s *svcSim) doOp() (string, error) {
	t := s.c.T
	s.redo, s.redoIdempotent = nil, false
	switch t.Pick("svc-op", 8, 8, 3, 3, 3, 3, 2, 2, 2, 2, 3, 2) {
	case 10: // reading the secrets (what signing a transaction does): not a mutation, memory and disk stay as they are
		name := s.pickName()
		err := s.svc.ViewSecrets(name, s.pickPw(name), func(w wallet.Wallet) error { _ = w.Seed(); return nil })
		return "view-secrets " + name, err
	case 11:
		name := s.pickName()
		_, _, err := s.svc.GetWalletSeed(name, s.pickPw(name))
		return "get-seed " + name, err
	case 0: // create
		typ := []string{wallet.WalletTypeDeterministic, wallet.WalletTypeBip44, wallet.WalletTypeXPub, wallet.WalletTypeCollection}[t.Pick("wtype", 5, 4, 2, 1)]
		opts := wallet.Options{Type: typ, Label: fmt.Sprintf("label-%d", t.Int("label", 4))}
		if t.Chance("empty-label", 1, 20) {
			opts.Label = ""
		}
		si := t.Int("seed", 3)
		switch typ {
		case wallet.WalletTypeDeterministic, wallet.WalletTypeBip44:
			opts.Seed = s.seeds[typ][si]
			if typ == wallet.WalletTypeBip44 && t.Chance("seed-passphrase", 1, 4) {
				opts.SeedPassphrase = "pass"
			}
		case wallet.WalletTypeXPub:
			opts.XPub = s.xpubs[si]
		}
		var pw []byte
		// never the default cipher (scrypt N=2^20: 1 GiB and seconds per lock); a wallet created
		// unencrypted keeps this type for a later EncryptWallet
		opts.CryptoType = crypto.CryptoTypeSha256Xor
		if t.Chance("insecure-scrypt-type", 1, 4) {
			opts.CryptoType = crypto.CryptoTypeScryptChacha20poly1305Insecure
		}
		switch t.Pick("create-enc", 4, 2, 1) {
		case 1:
			opts.Encrypt, opts.CryptoType, pw = true, crypto.CryptoTypeSha256Xor, s.pws[t.Int("pwi", 2)]
		case 2:
			opts.Encrypt, opts.CryptoType, pw = true, crypto.CryptoTypeScryptChacha20poly1305Insecure, s.pws[t.Int("pwi", 2)]
		}
		opts.Password = pw
		opts.Temp = t.Chance("temp", 1, 8)
		opts.GenerateN = uint64(t.Int("create-n", 4))
		name := ""
		if t.Chance("fixed-name", 1, 3) {
			name = fmt.Sprintf("w%d.wlt", t.Int("fixed-name-i", 4))
		}
		w, err := s.svc.CreateWallet(name, opts)
		if !opts.Encrypt && !opts.Temp && name != "" { // a generated file name would differ on the second attempt
			s.redo = func(svc *wallet.Service) error { _, e := svc.CreateWallet(name, opts); return e }
		}
		if err == nil {
			fn := w.Filename()
			s.names = append(s.names, fn)
			delete(s.unloaded, fn)
			if opts.Encrypt {
				s.pwOf[fn] = pw
			} else {
				delete(s.pwOf, fn)
			}
		}
		return fmt.Sprintf("create %s enc=%v temp=%v seed#%d", typ, opts.Encrypt, opts.Temp, si), err
	case 1:
		name := s.pickName()
		var o []wallet.Option
		o = append(o, wallet.OptionGenerateN(uint64(1+t.Pick("gen-n", 4, 2, 1))))
		if t.Chance("change-chain", 1, 4) {
			o = append(o, wallet.OptionChange())
		}
		pw := s.pickPw(name)
		_, err := s.svc.NewAddresses(name, pw, o...)
		if pw == nil {
			s.redo = func(svc *wallet.Service) error { _, e := svc.NewAddresses(name, nil, o...); return e }
		}
		return "new-addresses " + name, err
	case 2:
		name := s.pickName()
		_, err := s.svc.ScanAddresses(name, s.pickPw(name), uint64(1+t.Int("scan-n", 8)), s.tf)
		return "scan-addresses " + name, err
	case 3:
		name := s.pickName()
		lb := fmt.Sprintf("relabel-%d", t.Int("label", 5))
		s.redo = func(svc *wallet.Service) error { return svc.UpdateWalletLabel(name, lb) }
		s.redoIdempotent = true
		return "label " + name, s.svc.UpdateWalletLabel(name, lb)
	case 4:
		name := s.pickName()
		pw := s.pws[t.Int("pwi", 2)]
		_, err := s.svc.EncryptWallet(name, pw)
		if err == nil {
			s.pwOf[name] = pw
		}
		return "encrypt " + name, err
	case 5:
		name := s.pickName()
		_, err := s.svc.DecryptWallet(name, s.pickPw(name))
		if err == nil {
			delete(s.pwOf, name)
		}
		return "decrypt " + name, err
	case 6:
		name := s.pickName()
		seed := ""
		if w, err := s.svc.GetWallet(name); err == nil {
			typ := w.Type()
			if l := s.seeds[typ]; len(l) > 0 {
				seed = l[t.Int("seed", 3)]
			}
		}
		var npw []byte
		if t.Bool("recover-with-password") {
			npw = s.pws[t.Int("pwi", 2)]
		}
		_, err := s.svc.RecoverWallet(name, seed, "", npw)
		if err == nil {
			if npw != nil {
				s.pwOf[name] = npw
			} else {
				delete(s.pwOf, name)
			}
		}
		return "recover " + name, err
	case 7:
		name := s.pickName()
		err := s.svc.UnloadWallet(name)
		if err == nil {
			s.unloaded[name] = true
		}
		return "unload " + name, err
	case 8:
		name := s.pickName()
		fail := t.Chance("callback-fails", 1, 3)
		err := s.svc.UpdateSecrets(name, s.pickPw(name), func(w wallet.Wallet) error {
			if fail {
				return errors.New("callback refused")
			}
			w.SetLabel("secret-update")
			return nil
		})
		return "update-secrets " + name, err
	default:
		name := s.pickName()
		fail := t.Chance("callback-fails", 1, 3)
		err := s.svc.Update(name, func(w wallet.Wallet) error {
			if fail {
				return errors.New("callback refused")
			}
			w.SetLabel("plain-update")
			return nil
		})
		return "update " + name, err
	}
}

// startFresh starts a new service on dir and returns its view.
func (s *svcSim) startFresh(dir string) (map[string]string, error) {
	cfg := s.cfg
	cfg.WalletDir = dir
	svc, err := wallet.NewService(cfg)
	if err != nil {
		return nil, err
	}
	return s.memView(svc), nil
}

func runService(c *sim.Ctx) {
	s := newSvcSim(c)
	defer s.fs.detach()
	t := c.T
	steps := t.Range("svc-steps", 6, 24)
	withDiskErrors := c.Property == "C19" && t.Chance("profile-disk-errors", 1, 2)
	c.Sample = append(c.Sample, fmt.Sprintf("wallet service history of %d operations, disk errors=%v", steps, withDiskErrors))
	for c.Step = 1; c.Step <= steps && !c.Failed(); c.Step++ {
		memBefore := s.memView(s.svc)
		diskBefore := s.fs.snap()
		failAt, failCut := 0, 0
		if withDiskErrors && t.Chance("disk-error", 1, 4) {
			failAt = 1 + t.Int("disk-error-step", 3)
			failCut = t.Int("disk-error-cut", 400) - 1
		}
		if t.Chance("svc-time-passes", 1, 4) {
			// wallets carry timestamps with a resolution of one second: let the clock move between operations
			d := time.Duration(1+t.Int("svc-sleep", 5)) * time.Second
			time.Sleep(d)
			c.SimNanos += int64(d)
			c.Count("fault.clock_advance")
		}
		s.fs.begin(failAt, failCut)
		label, err := s.doOp()
		c.Kind(byte(1+len(label)%7), err == nil)
		c.Logf("op %s -> %v (fs ops %d, disk error fired=%v)", label, err, len(s.fs.ops), s.fs.fired)
		if err != nil {
			c.Count("op.failed")
		} else {
			c.Count("op.ok")
		}
		memAfter := s.memView(s.svc)
		diskAfter := s.fs.snap()

		if c.Property == "C19" {
			s.checkMemDisk(label, err, memBefore, memAfter, diskBefore, diskAfter)
		}
		s.lastOpOK = err == nil
		if c.Property == "C20" && len(s.fs.ops) > 0 {
			s.checkCrashStates(label, diskBefore, diskAfter)
		}
	}
}

// checkMemDisk: the C19 oracle.
func (s *svcSim) checkMemDisk(label string, opErr error, memBefore, memAfter map[string]string, diskBefore, diskAfter map[string][]byte) {
	c := s.c
	opKind := strings.Fields(label)[0]
	faulted := ""
	if s.fs.fired {
		faulted = "+disk-error"
	}
	// (d) a failed operation changes neither memory nor the wallet files
	if opErr != nil {
		if why, ok := sameStrMap(memBefore, memAfter); !ok {
			c.Violate("failed-op-changed-memory", opKind+faulted, "operation [%s] failed (%v) but the wallets in memory changed (%s)", label, opErr, strings.SplitN(why, ":", 2)[0])
			return
		}
		if why, ok := sameStrMap(wltFiles(diskBefore), wltFiles(diskAfter)); !ok {
			c.Violate("failed-op-changed-disk", opKind+faulted+":"+strings.SplitN(why, ":", 2)[0], "operation [%s] failed (%v) but a wallet file changed on disk (%s)", label, opErr, why)
			return
		}
	}
	// (a) a freshly started service must load the directory
	fresh, err := s.startFresh(s.dir)
	if err != nil {
		c.Violate("fresh-service-fails", opKind+faulted+":"+classifyStartErr(err), "after [%s] (result: %v) a freshly started wallet service cannot load the directory: %v", label, opErr, err)
		return
	}
	// (b) memory == reload, wallet by wallet, for loaded non-temporary wallets
	for name, mv := range memAfter {
		if strings.HasPrefix(mv, "temp:") {
			if _, onDisk := fresh[name]; onDisk && !s.wasOnDiskBefore(name, diskBefore) {
				c.Violate("temp-wallet-on-disk", opKind, "temporary wallet %s was written to disk by [%s]", name, label)
				return
			}
			continue
		}
		fv, ok := fresh[name]
		if !ok {
			c.Violate("memory-disk-diverge", opKind+faulted+":not-on-disk", "after [%s] wallet %s is in memory but a fresh service does not load it", label, name)
			return
		}
		if fv != mv {
			c.Violate("memory-disk-diverge", opKind+faulted+":content", "after [%s] wallet %s in memory differs from what a fresh service loads", label, name)
			return
		}
	}
	// (c) everything on disk is in memory unless it was explicitly unloaded
	for name := range fresh {
		if _, ok := memAfter[name]; !ok && !s.unloaded[name] {
			c.Violate("memory-disk-diverge", opKind+faulted+":not-in-memory", "after [%s] wallet file %s is on disk but not in memory and was never unloaded", label, name)
			return
		}
	}
	// (e) no two loaded wallets share a fingerprint
	ws, _ := s.svc.GetWallets()
	fps := map[string]string{}
	names := make([]string, 0, len(ws))
	for n := range ws {
		names = append(names, n)
	}
	sort.Strings(names)
	for _, n := range names {
		fp := ws[n].Fingerprint()
		if fp == "" {
			continue
		}
		if o, dup := fps[fp]; dup {
			c.Violate("duplicate-fingerprint", opKind, "after [%s] wallets %s and %s are both loaded with fingerprint %s", label, o, n, fp)
			return
		}
		fps[fp] = n
	}
	c.Count("probe.memdisk_compared")
}

func (s *svcSim) wasOnDiskBefore(name string, before map[string][]byte) bool {
	_, ok := before[name]
	return ok
}

func classifyStartErr(err error) string {
	m := err.Error()
	switch {
	case strings.Contains(m, "duplicate wallet"):
		return "duplicate-fingerprint-on-disk"
	case strings.Contains(m, "empty wallet"):
		return "empty-wallet-file"
	case strings.Contains(m, "unexpected end of JSON") || strings.Contains(m, "EOF") || strings.Contains(m, "invalid character"):
		return "unreadable-wallet-file"
	}
	return "other"
}

// checkCrashStates: the C20 oracle for wallet files.
func (s *svcSim) checkCrashStates(label string, diskBefore, diskAfter map[string][]byte) {
	c := s.c
	opKind := strings.Fields(label)[0]
	// logical content of each wallet file before and after, as loaded by a fresh service
	viewOf := func(files map[string][]byte) (map[string]string, error) {
		s.scratch++
		d := fmt.Sprintf("%s/view%d", c.Dir, s.scratch)
		materialise(d, crashState{files: files})
		return s.startFresh(d)
	}
	before, errB := viewOf(diskBefore)
	after, errA := viewOf(diskAfter)
	if errB != nil || errA != nil {
		// the directory is already unloadable without any crash: C19's matter
		c.Count("desync.directory_unloadable_without_crash")
		return
	}
	states := s.fs.crashStates()
	retryAt := c.T.Int("svc-retry-state", 64)
	for si, st := range states {
		c.Count("crash.states")
		if s.redo != nil && s.lastOpOK && si == retryAt%len(states) {
			if s.retryAfterCrash(label, opKind, st, before, after) {
				return
			}
		}
		h := sha256.New()
		var ns []string
		for n := range st.files {
			ns = append(ns, n)
		}
		sort.Strings(ns)
		for _, n := range ns {
			h.Write([]byte(n))
			h.Write(st.files[n])
		}
		sum := h.Sum(nil)
		c.State(uint64(sum[0])|uint64(sum[1])<<8|uint64(sum[2])<<16|uint64(sum[3])<<24|uint64(sum[4])<<32, uint64(len(ns)))
		got, err := viewOf(st.files)
		if err != nil {
			c.Violate("crash-node-does-not-start", "wallet:"+opKind+":"+classifyStartErr(err)+":"+stateKind(st.label), "after a crash during [%s] at [%s] the wallet service cannot start: %v", label, st.label, err)
			return
		}
		for name, bv := range before {
			gv, ok := got[name]
			av, inAfter := after[name]
			if !ok {
				c.Violate("crash-lost-wallet", "wallet:"+opKind+":"+stateKind(st.label), "after a crash during [%s] at [%s] wallet %s is gone", label, st.label, name)
				return
			}
			if gv != bv && !(inAfter && gv == av) {
				c.Violate("crash-wallet-content", "wallet:"+opKind+":"+stateKind(st.label), "after a crash during [%s] at [%s] wallet %s is neither its previous nor its new content", label, st.label, name)
				return
			}
		}
		for name, gv := range got {
			if _, ok := before[name]; ok {
				continue
			}
			if av, ok := after[name]; !ok || av != gv {
				c.Violate("crash-wallet-content", "wallet:"+opKind+":new-file:"+stateKind(st.label), "after a crash during [%s] at [%s] a wallet %s appears that is not the new wallet", label, st.label, name)
				return
			}
		}
	}
}

// retryAfterCrash: the service restarts on the crash state, the client repeats the request that was interrupted,
// the service restarts once more.  It must start, and the wallets must be those of the completed operation (or,
// if the repeated request was refused, those the first restart found).  Only used for operations whose result
// is a function of their arguments (no fresh encryption nonce).  Returns true when it recorded a violation.
func (s *svcSim) retryAfterCrash(label, opKind string, st crashState, before, after map[string]string) bool {
	c := s.c
	s.scratch++
	d := fmt.Sprintf("%s/retry%d", c.Dir, s.scratch)
	materialise(d, st)
	cfg := s.cfg
	cfg.WalletDir = d
	svc, err := wallet.NewService(cfg)
	if err != nil {
		return false // reported by the ordinary crash-state check
	}
	first := s.memView(svc)
	rerr := s.redo(svc)
	c.Count("fault.crash_recover_retry")
	again, err := s.startFresh(d)
	if err != nil {
		c.Violate("crash-node-does-not-start", "wallet:"+opKind+":after-retry:"+classifyStartErr(err)+":"+stateKind(st.label), "crash during [%s] at [%s], restart, the same request again (%v), restart: the wallet service cannot start: %v", label, st.label, rerr, err)
		return true
	}
	want := after
	if rerr != nil {
		want = first
	} else if _, same := sameStrMap(nonTemp(first), nonTemp(before)); !same && !s.redoIdempotent {
		// the interrupted operation had already taken effect and repeating it is not idempotent (it generates
		// further addresses): what the second application yields is not something this oracle knows
		c.Count("probe.retry_on_completed_nonidempotent_op_skipped")
		return false
	}
	if what, ok := sameStrMap(nonTemp(want), nonTemp(again)); !ok {
		c.Violate("crash-retry-content", "wallet:"+opKind+":"+stateKind(st.label), "crash during [%s] at [%s], restart, the same request again (%v), restart: the wallets are not those of the completed operation (%s)", label, st.label, rerr, what)
		return true
	}
	return false
}

func nonTemp(m map[string]string) map[string]string {
	out := map[string]string{}
	for k, v := range m {
		if !strings.HasPrefix(v, "temp:") {
			out[k] = v
		}
	}
	return out
}

// stateKind strips numbers from a crash-state label so that signatures are stable.
func stateKind(label string) string {
	switch {
	case strings.Contains(label, "O_TRUNC"):
		if strings.Contains(label, ".tmp.") {
			return "tmp-truncated"
		}
		return "target-truncated"
	case strings.Contains(label, "torn"):
		if strings.Contains(label, ".tmp.") {
			return "tmp-torn"
		}
		return "target-torn"
	case strings.Contains(label, "before the first"):
		return "before-first-step"
	}
	return "step-boundary"
}

var _ = bytes.Equal
