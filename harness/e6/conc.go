package e6

import (
	"fmt"
	"os"
	"path/filepath"
	"strings"
	"testing/synctest"
	"time"

	"github.com/skycoin/skycoin/src/daemon/pex"

	"verifsim/sched"
	"verifsim/sim"
)

// Concurrent callers of one peer list (second phase of C26).  In the running node the list has several
// writers: the daemon's event loop (peer-exchange replies -> AddPeers, introductions -> AddPeer, failed
// connections -> retry bookkeeping / RemovePeer), the goroutine that bulk-adds the downloaded peers list, API
// requests, and the list's own Run goroutine with the stale-peer sweep.  What they can do to each other is
// decided by the list's lock.  Here 2-4 actor goroutines run scripted operation sequences on a real pex.Pex
// (with its real Run goroutine on the fake clock) while the tape decides, at every acquisition of the lock
// (hook H10) and between operations, which goroutine proceeds or whether simulated time passes.  At every
// quiescent point (nobody holds the lock: goroutines only park before acquiring it) the list is compared with
// the statement: valid addresses only, never more than the maximum, trusted peers present.

var (
	pcDone [8]bool
)

//go:norace
func pcFinish(i int) { pcDone[i] = true }

//go:norace
func pcAllDone(n int) bool {
	for i := 0; i < n; i++ {
		if !pcDone[i] {
			return false
		}
	}
	return true
}

//go:norace
func pcReset() { pcDone = [8]bool{} }

type pexOp struct {
	kind  int
	addrs []string
	n     int
	flag  bool
}

func (o pexOp) String() string {
	switch o.kind {
	case 0:
		return fmt.Sprintf("AddPeers(%d addresses)", len(o.addrs))
	case 1:
		return fmt.Sprintf("AddPeer(%s)", o.addrs[0])
	case 2:
		return fmt.Sprintf("RemovePeer(%s)", o.addrs[0])
	case 3:
		return fmt.Sprintf("IncreaseRetryTimes(%s) x%d", o.addrs[0], o.n)
	case 4:
		return fmt.Sprintf("SetHasIncomingPort(%s)", o.addrs[0])
	default:
		return fmt.Sprintf("Random(%d)/Trusted/ResetAllRetryTimes", o.n)
	}
}

func runPexConcurrent(c *sim.Ctx) {
	t := c.T
	pex.VerifSeedRand(int64(c.Seed >> 1))
	dir := filepath.Join(c.Dir, "pexc")
	if err := os.MkdirAll(dir, 0o700); err != nil {
		sim.Harnessf("mkdir: %v", err)
	}
	cfg := pex.NewConfig()
	cfg.DataDirectory = dir
	cfg.Max = t.Range("max", 2, 10)
	cfg.AllowLocalhost = false
	nTrusted := t.Int("trusted", 3)
	if nTrusted > cfg.Max {
		nTrusted = cfg.Max
	}
	for i := 0; i < nTrusted; i++ {
		cfg.DefaultConnections = append(cfg.DefaultConnections, fmt.Sprintf("45.33.%d.%d:6000", i+1, 10+i))
	}
	c.Knobs["max"] = int64(cfg.Max)
	c.Knobs["trusted"] = int64(nTrusted)
	px, err := pex.New(cfg)
	if err != nil {
		c.Violate("pex-start-failed", "start", "the peer list cannot be started on its own directory: %v", err)
		return
	}
	// some peers that exist before the actors start (remove / retry targets); they may be aged by a clock advance
	var known []string
	for i := 0; i < t.Int("prefill", cfg.Max); i++ {
		a := fmt.Sprintf("62.4.%d.9:6000", i+1)
		if px.AddPeer(a) == nil {
			known = append(known, a)
		}
	}
	known = append(known, cfg.DefaultConnections...)
	if len(known) == 0 {
		known = []string{"62.4.1.9:6000"}
	}
	// scripts are drawn before anything runs: only the controller may draw while goroutines run
	nActors := t.Range("pexc-actors", 2, 4)
	scripts := make([][]pexOp, nActors)
	nOps := 0
	for i := range scripts {
		for j := 0; j < t.Range("pexc-ops", 1, 5); j++ {
			var o pexOp
			switch o.kind = t.Pick("pexc-op", 8, 5, 2, 1, 1, 2); o.kind {
			case 0:
				n := []int{1, 2, cfg.Max, 2 * cfg.Max, 40}[t.Pick("pexc-bulk-n", 2, 3, 4, 3, 1)]
				for k := 0; k < n; k++ {
					o.addrs = append(o.addrs, fmt.Sprintf("81.%d.%d.%d:6000", 10+i, 1+j, 1+k))
				}
				if t.Chance("pexc-bulk-invalid", 1, 4) {
					o.addrs = append(o.addrs, drawAddr(t))
				}
				if t.Chance("pexc-bulk-known", 1, 4) {
					o.addrs = append(o.addrs, known[t.Int("pexc-known", len(known))])
				}
			case 1:
				if t.Chance("pexc-single-fresh", 3, 4) {
					o.addrs = []string{fmt.Sprintf("82.%d.%d.7:6000", 10+i, 1+j)}
				} else {
					o.addrs = []string{drawAddr(t)}
				}
			case 2, 3, 4:
				o.addrs = []string{known[t.Int("pexc-known", len(known))]}
				if o.kind == 2 && strings.HasPrefix(o.addrs[0], "45.33.") {
					// removing a trusted peer on request is not an eviction; keep it out of the workload
					o.addrs = []string{"62.4.1.9:6000"}
				}
				o.n = 1 + t.Int("pexc-retries", 12)
				o.flag = t.Bool("pexc-flag")
			default:
				o.n = t.Int("pexc-random-n", 5)
			}
			scripts[i] = append(scripts[i], o)
			nOps++
		}
	}
	decisions := 30 + t.Int("pexc-decisions", 120)
	c.Sample = append(c.Sample, fmt.Sprintf("peer list max=%d trusted=%d, %d peers before, %d concurrent actors with %d operations in all, %d scheduling decisions", cfg.Max, nTrusted, len(px.VerifAllPeers()), nActors, nOps, decisions))

	pcReset()
	sched.Reset()
	sched.Register("controller")
	pex.VerifLockYield = func(kind string) {
		if sched.IsCurrent("controller") {
			return
		}
		sched.Yield("pex " + kind)
	}
	defer func() { pex.VerifLockYield = nil }()
	go px.Run() //nolint:errcheck // the real Run loop: its stale-peer ticker fires on the fake clock
	for i := range scripts {
		ai := i
		go func() {
			sched.Register("actor" + fmt.Sprint(ai))
			for _, o := range scripts[ai] {
				sched.Yield("act")
				switch o.kind {
				case 0:
					px.AddPeers(o.addrs)
				case 1:
					_ = px.AddPeer(o.addrs[0])
				case 2:
					px.RemovePeer(o.addrs[0])
				case 3:
					for k := 0; k < o.n; k++ {
						px.IncreaseRetryTimes(o.addrs[0])
					}
				case 4:
					_ = px.SetHasIncomingPort(o.addrs[0], o.flag)
				default:
					_ = px.Random(o.n)
					_ = px.Trusted()
					px.ResetAllRetryTimes()
				}
			}
			pcFinish(ai)
		}()
	}
	check := func(what string) {
		peers := px.VerifAllPeers()
		for _, p := range peers {
			if ok, why := validStored(p.Addr, cfg.AllowLocalhost); !ok {
				c.Violate("invalid-address-in-list", why, "%s: the peer list contains %q (%s)", what, p.Addr, why)
				return
			}
		}
		if len(peers) > cfg.Max {
			c.Violate("bulk-add-exceeds-max", "concurrent", "%s: the list has %d peers, maximum is %d (concurrent additions)", what, len(peers), cfg.Max)
			return
		}
		have := map[string]pex.Peer{}
		for _, p := range peers {
			have[p.Addr] = p
		}
		for _, a := range cfg.DefaultConnections {
			p, ok := have[a]
			if !ok {
				c.Violate("trusted-peer-lost", "concurrent", "%s: the trusted peer %s is gone", what, a)
				return
			}
			if !p.Trusted {
				c.Violate("trusted-peer-untrusted", "concurrent", "%s: the configured trusted peer %s is no longer marked trusted", what, a)
				return
			}
		}
		c.Count("probe.peerlist_checked")
		c.State(uint64(len(peers)), uint64(cfg.Max), uint64(nTrusted))
	}
	start := time.Now()
	idle, turn := 0, 0
	last := "start"
	for !c.Failed() {
		synctest.Wait()
		c.SimNanos = int64(time.Since(start))
		check("after " + last)
		if c.Failed() {
			break
		}
		if pcAllDone(nActors) {
			break
		}
		parked := sched.CollectParked()
		if len(parked) == 0 {
			idle++
			if idle > 60 {
				sim.Harnessf("concurrent peer list run: actors neither finished nor schedulable")
			}
			sched.Advance(time.Second)
			last = "1s idle"
			continue
		}
		idle = 0
		if c.Step < decisions && c.T.Chance("pexc-time", 1, 10) {
			d := []time.Duration{time.Minute, 11 * time.Minute, 25 * time.Hour, 8 * 24 * time.Hour}[c.T.Pick("pexc-sleep", 2, 4, 3, 1)]
			sched.Advance(d)
			c.Step++
			c.Count("fault.clock_advance")
			c.Kind(6, true)
			c.Logf("+%v", d)
			last = fmt.Sprintf("%v of simulated time", d)
			continue
		}
		var pick int
		if c.Step >= decisions {
			pick = turn % len(parked)
			turn++
		} else {
			v := c.T.Draw("pexc-sched", 1<<32)
			best := uint64(0)
			for i, p := range parked {
				if sc := sched.Rendezvous(v, p.Name, p.Label); i == 0 || sc < best {
					best, pick = sc, i
				}
			}
		}
		p := parked[pick]
		c.Step++
		c.Logf("release %s @ %s (of %d)", p.Name, p.Label, len(parked))
		kind := byte(10)
		if strings.HasPrefix(p.Label, "pex ") {
			kind = 11
			c.Count("probe.lock_acquisition_scheduled")
		}
		if !p.Harness {
			kind += 2
		}
		c.Kind(kind, true)
		last = "releasing " + p.Name + " at " + p.Label
		sched.Release(p.Idx)
		sched.StepOnce()
		if c.Step > decisions+5000 {
			sim.Harnessf("concurrent peer list run does not end")
		}
	}
	if !c.Failed() {
		c.Count("probe.concurrent_histories_completed")
	}
	sched.Off()
	sched.StepOnce()
	synctest.Wait()
	px.Shutdown()
}
