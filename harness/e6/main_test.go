package e6

import (
	"testing"

	"verifsim/sim"
)

func TestWorker(t *testing.T) {
	sim.WorkerMain(t, map[string]sim.Engine{
		"C26":  {Run: runPex, Nontrivial: func(c *sim.Ctx) bool { return c.Counters["probe.peerlist_checked"] >= 5 }},
		"C26c": {Run: runPexConcurrent, Nontrivial: func(c *sim.Ctx) bool { return c.Counters["probe.lock_acquisition_scheduled"] >= 4 }},
	})
}
