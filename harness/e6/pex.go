// Package e6 is engine E6 "pexsim": the real peer list (pex.New on a per-run
// directory, its Run goroutine with the stale-peer ticker on the fake clock)
// driven by seeded operation histories with simulated days and reloads.
package e6

import (
	"fmt"
	"io"
	"io/ioutil"
	"log"
	"os"
	"path/filepath"
	"strconv"
	"strings"
	"testing/synctest"
	"time"

	"github.com/skycoin/skycoin/src/daemon/pex"
	"github.com/skycoin/skycoin/src/util/logging"

	"verifsim/sim"
)

func init() {
	logging.Disable()
	log.SetOutput(io.Discard)
}

// validStored is the independent validator for an address found IN the list:
// dotted IPv4 without decoration, not unspecified / multicast / link-local /
// broadcast, loopback only when allowed, port 1024..65535.
func validStored(addr string, allowLoopback bool) (bool, string) {
	parts := strings.Split(addr, ":")
	if len(parts) != 2 {
		return false, "not ip:port"
	}
	oct := strings.Split(parts[0], ".")
	if len(oct) != 4 {
		return false, "not a dotted IPv4 address"
	}
	var b [4]int
	for i, o := range oct {
		if o == "" || len(o) > 3 {
			return false, "octet"
		}
		for _, ch := range o {
			if ch < '0' || ch > '9' {
				return false, "octet characters"
			}
		}
		if len(o) > 1 && o[0] == '0' {
			return false, "octet with leading zero"
		}
		v, _ := strconv.Atoi(o)
		if v > 255 {
			return false, "octet > 255"
		}
		b[i] = v
	}
	switch {
	case b == [4]int{0, 0, 0, 0}:
		return false, "unspecified address"
	case b[0] == 127:
		if !allowLoopback {
			return false, "loopback"
		}
	case b[0] >= 224 && b[0] <= 239:
		return false, "multicast"
	case b[0] == 169 && b[1] == 254:
		return false, "link-local"
	case b == [4]int{255, 255, 255, 255}:
		return false, "broadcast"
	}
	if parts[1] == "" || len(parts[1]) > 5 {
		return false, "port"
	}
	for _, ch := range parts[1] {
		if ch < '0' || ch > '9' {
			return false, "port characters"
		}
	}
	p, _ := strconv.Atoi(parts[1])
	if p < 1024 || p > 65535 {
		return false, "port out of range"
	}
	return true, ""
}

var ipPool = []string{
	"8.8.8.8", "1.1.1.1", "93.184.216.34", "10.0.0.7", "10.1.2.3", "172.16.5.4", "192.168.1.9", "203.0.113.5", // unicast
	"127.0.0.1", "127.1.2.3", // loopback
	"224.0.0.1", "239.255.255.250", // multicast
	"169.254.1.1",                                                                                                      // link-local
	"0.0.0.0",                                                                                                          // unspecified
	"255.255.255.255",                                                                                                  // broadcast
	"::1", "[::1]", "fe80::1", "example.com", "1.2.3", "1.2.3.4.5", "256.1.1.1", "01.2.3.4", "1.2.3.-4", "１.2.3.4", "", // not IPv4
}

var portPool = []string{"6000", "1024", "65535", "7001", "7002", "1023", "0", "80", "65536", "99999", "-1", "", "abc", "6000x", "+6000"}

func drawAddr(t *sim.Tape) string {
	ip := ipPool[t.Pick("ip-class", 8, 8, 6, 6, 5, 4, 4, 3, 2, 1, 2, 1, 1, 1, 1, 1, 1, 1, 1, 1, 1, 1, 1, 1, 1, 1)]
	if t.Chance("vary-ip", 1, 3) && strings.Count(ip, ".") == 3 && ip[0] != '2' {
		ip = fmt.Sprintf("%s.%d", ip[:strings.LastIndex(ip, ".")], 1+t.Int("last-octet", 250))
	}
	port := portPool[t.Pick("port-class", 10, 3, 3, 4, 4, 2, 2, 2, 1, 1, 1, 1, 1, 1, 1)]
	s := ip + ":" + port
	switch t.Pick("decorate", 12, 1, 1, 1, 1, 1) {
	case 1:
		s = " " + s
	case 2:
		s = s + "\n"
	case 3:
		s = strings.Replace(s, ":", " :", 1)
	case 4:
		s = strings.Replace(s, ":", "::", 1)
	case 5:
		s = ip // no port at all
	}
	return s
}

func runPex(c *sim.Ctx) {
	t := c.T
	pex.VerifSeedRand(int64(c.Seed >> 1))
	dir := filepath.Join(c.Dir, "pex")
	if err := os.MkdirAll(dir, 0o700); err != nil {
		sim.Harnessf("mkdir: %v", err)
	}
	cfg := pex.NewConfig()
	cfg.DataDirectory = dir
	cfg.Max = 2 + t.Int("max", 7)
	cfg.AllowLocalhost = t.Chance("allow-localhost", 1, 4)
	nTrusted := t.Int("trusted", 4)
	if nTrusted > cfg.Max {
		nTrusted = cfg.Max
	}
	for i := 0; i < nTrusted; i++ {
		cfg.DefaultConnections = append(cfg.DefaultConnections, fmt.Sprintf("45.33.%d.%d:6000", i+1, 10+i))
	}
	// A custom peers file is loaded without any bound at every start; together with a full list it
	// pushes the list over its maximum, after which a reload keeps a random Max-subset and may fail to
	// re-add a trusted default ("Peer list full"; recorded in DESIGN.md as an observation, not a finding:
	// the statement bounds bulk additions only).  So runs with a custom file never reload; what they are
	// for is the list that is already above its maximum when a bulk addition arrives.
	if t.Chance("custom-peers-file", 1, 5) {
		fn := filepath.Join(dir, "custom.txt")
		var lines []string
		for i := 0; i < 1+t.Int("custom-n", 3); i++ {
			lines = append(lines, fmt.Sprintf("62.4.%d.9:6000", i+1))
		}
		lines = append(lines, "# a comment", "")
		if err := ioutil.WriteFile(fn, []byte(strings.Join(lines, "\n")), 0o600); err != nil {
			sim.Harnessf("write custom peers: %v", err)
		}
		cfg.CustomPeersFile = fn
		c.Count("probe.custom_peers_file")
	}
	c.Knobs["max"] = int64(cfg.Max)
	c.Knobs["trusted"] = int64(nTrusted)
	var px *pex.Pex
	start := func() {
		var err error
		px, err = pex.New(cfg)
		if err != nil {
			c.Violate("pex-start-failed", "start", "the peer list cannot be (re)started on its own directory: %v", err)
			return
		}
		go px.Run() //nolint:errcheck // the real Run loop: its clearOld ticker fires on the fake clock
		synctest.Wait()
	}
	start()
	if c.Failed() {
		return
	}
	defer func() {
		if px != nil {
			px.Shutdown()
		}
	}()
	bulkLimit := cfg.Max // what bulk additions may reach
	customExtra := 0
	if cfg.CustomPeersFile != "" {
		// the custom file is loaded without a bound at start-up; the statement's bound is about bulk additions
		customExtra = len(px.VerifAllPeers())
		if customExtra > bulkLimit {
			bulkLimit = customExtra
		}
	}
	steps := t.Range("pex-steps", 8, 60)
	c.Sample = append(c.Sample, fmt.Sprintf("peer list max=%d trusted=%d allowLocalhost=%v, %d operations", cfg.Max, nTrusted, cfg.AllowLocalhost, steps))
	check := func(what string, afterBulk bool, before int) {
		peers := px.VerifAllPeers()
		seen := map[string]bool{}
		for _, p := range peers {
			if ok, why := validStored(p.Addr, cfg.AllowLocalhost); !ok {
				c.Violate("invalid-address-in-list", why, "after %s the peer list contains %q (%s)", what, p.Addr, why)
				return
			}
			seen[p.Addr] = true
		}
		if afterBulk && len(peers) > cfg.Max && len(peers) > before {
			c.Violate("bulk-add-exceeds-max", "bulk", "after %s the list has %d peers (had %d), maximum is %d", what, len(peers), before, cfg.Max)
			return
		}
		for _, a := range cfg.DefaultConnections {
			p, ok := px.GetPeer(a)
			if !ok {
				c.Violate("trusted-peer-lost", strings.Fields(what)[0], "after %s the trusted peer %s is gone", what, a)
				return
			}
			if !p.Trusted {
				c.Violate("trusted-peer-untrusted", strings.Fields(what)[0], "after %s the configured trusted peer %s is no longer marked trusted", what, a)
				return
			}
		}
		c.Count("probe.peerlist_checked")
		c.State(uint64(len(peers)), uint64(cfg.Max), uint64(nTrusted))
	}
	check("start", false, 0)
	for c.Step = 1; c.Step <= steps && !c.Failed(); c.Step++ {
		before := len(px.VerifAllPeers())
		switch t.Pick("pex-op", 6, 6, 2, 2, 2, 4, 2, 1) {
		case 0:
			a := drawAddr(t)
			err := px.AddPeer(a)
			c.Kind(1, err == nil)
			c.Logf("AddPeer(%q) -> %v", a, err)
			check(fmt.Sprintf("AddPeer(%q)", a), false, before)
		case 1:
			n := []int{0, 1, 3, 10, 40, 600}[t.Pick("bulk-n", 1, 3, 4, 4, 2, 1)]
			as := make([]string, n)
			for i := range as {
				as[i] = drawAddr(t)
			}
			got := px.AddPeers(as)
			c.Kind(2, got > 0)
			c.Logf("AddPeers(%d addresses) -> %d", n, got)
			if got > 0 && before+got >= cfg.Max {
				c.Count("probe.bulk_add_reached_max")
			}
			check(fmt.Sprintf("AddPeers(%d addresses)", n), true, before)
		case 2:
			// remove an untrusted peer
			for _, p := range px.VerifAllPeers() {
				if !p.Trusted {
					px.RemovePeer(p.Addr)
					c.Logf("RemovePeer(%s)", p.Addr)
					break
				}
			}
			c.Kind(3, true)
			check("RemovePeer", false, before)
		case 3:
			ps := px.VerifAllPeers()
			if len(ps) > 0 {
				p := ps[t.Int("retry-peer", len(ps))]
				for i := 0; i < 1+t.Int("retries", 12); i++ {
					px.IncreaseRetryTimes(p.Addr)
				}
				c.Logf("IncreaseRetryTimes(%s)", p.Addr)
			}
			c.Kind(4, true)
			check("IncreaseRetryTimes", false, before)
		case 4:
			ps := px.VerifAllPeers()
			if len(ps) > 0 {
				p := ps[t.Int("port-peer", len(ps))]
				_ = px.SetHasIncomingPort(p.Addr, t.Bool("has-port"))
			}
			_ = px.Random(t.Int("random-n", 5))
			_ = px.Trusted()
			px.ResetAllRetryTimes()
			c.Kind(5, true)
			check("SetHasIncomingPort/Random", false, before)
		case 5: // time passes: minutes ... weeks (the stale-peer sweep runs every 10 simulated minutes)
			d := []time.Duration{time.Minute, 11 * time.Minute, time.Hour, 25 * time.Hour, 8 * 24 * time.Hour, 30 * 24 * time.Hour}[t.Pick("pex-sleep", 2, 3, 3, 3, 3, 1)]
			time.Sleep(d)
			synctest.Wait()
			c.SimNanos += int64(d)
			c.Count("fault.clock_advance")
			c.Kind(6, true)
			c.Logf("+%v", d)
			check(fmt.Sprintf("%v of simulated time", d), false, before)
		case 6: // shutdown and reload from the peers file
			if cfg.CustomPeersFile != "" {
				continue // (see above)
			}
			px.Shutdown()
			px = nil
			corrupted := false
			if t.Chance("corrupt-peers-file", 1, 6) {
				fn := filepath.Join(dir, pex.PeerCacheFilename)
				if b, err := ioutil.ReadFile(fn); err == nil && len(b) > 2 {
					_ = ioutil.WriteFile(fn, b[:t.Int("truncate-peers", len(b))], 0o600)
					c.Count("fault.peers_file_truncated")
					corrupted = true
				}
			}
			start()
			if c.Failed() {
				if corrupted {
					// refusing to start on a damaged peers file is outside this property
					c.Viol = nil
					c.Count("probe.start_refused_on_truncated_peers_file")
				}
				return
			}
			c.Count("fault.restart")
			c.Kind(7, true)
			c.Logf("shutdown + reload")
			check("shutdown and reload", false, before)
		case 7: // fill the list with fresh valid peers, then age them, to make eviction possible
			for i := 0; i < cfg.Max+2; i++ {
				_ = px.AddPeer(fmt.Sprintf("77.%d.%d.%d:6000", 1+t.Int("fill-a", 200), i+1, 1+t.Int("fill-b", 200)))
			}
			c.Kind(8, true)
			c.Logf("fill")
			check("filling the list one by one", false, before)
		}
	}
}
