module verifsim

go 1.26.8

require (
	github.com/blang/semver v3.5.1+incompatible
	github.com/boltdb/bolt v1.3.1
	github.com/skycoin/skycoin v0.0.0
	golang.org/x/crypto v0.0.0-20181015023909-0c41d7ab0a0e
)

require (
	github.com/cenkalti/backoff v1.1.0 // indirect
	github.com/mattn/go-colorable v0.0.9 // indirect
	github.com/mattn/go-isatty v0.0.4 // indirect
	github.com/mgutz/ansi v0.0.0-20170206155736-9520e82c474b // indirect
	github.com/rs/cors v1.6.0 // indirect
	github.com/shopspring/decimal v0.0.0-20180709203117-cd690d0c9e24 // indirect
	github.com/sirupsen/logrus v1.1.1 // indirect
	golang.org/x/net v0.0.0-20181023162649-9b4f9f5ad519 // indirect
	golang.org/x/sys v0.0.0-20181023152157-44b849a8bc13 // indirect
)

replace github.com/skycoin/skycoin => /repo

// bolt v1.3.1 with one change: child buckets are spilled in name order, not map order (deterministic file layout)
replace github.com/boltdb/bolt => ./third_party/bolt

godebug randseednop=0
