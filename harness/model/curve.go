// Package model holds the reference models the simulator judges skycoin
// against.  It is written from the property statements and the protocol
// documentation and never calls the code it judges: it has its own binary
// encoder, uses crypto/sha256 and x/crypto/ripemd160 directly, does all value
// arithmetic in math/big, and verifies signatures with the textbook
// secp256k1 implementation in this file.
package model

import (
	"math/big"
	"sync"
)

// Textbook secp256k1: y^2 = x^3 + 7 over F_p, Jacobian coordinates with
// math/big.  Only what signature recovery needs.

var (
	curveP, _  = new(big.Int).SetString("FFFFFFFFFFFFFFFFFFFFFFFFFFFFFFFFFFFFFFFFFFFFFFFFFFFFFFFEFFFFFC2F", 16)
	curveN, _  = new(big.Int).SetString("FFFFFFFFFFFFFFFFFFFFFFFFFFFFFFFEBAAEDCE6AF48A03BBFD25E8CD0364141", 16)
	curveGx, _ = new(big.Int).SetString("79BE667EF9DCBBAC55A06295CE870B07029BFCDB2DCE28D959F2815B16F81798", 16)
	curveGy, _ = new(big.Int).SetString("483ADA7726A3C4655DA4FBFC0E1108A8FD17B448A68554199C47D08FFB10D4B8", 16)
	halfN      = new(big.Int).Rsh(curveN, 1)
	big7       = big.NewInt(7)
)

// CurveN returns a copy of the group order.
func CurveN() *big.Int { return new(big.Int).Set(curveN) }

// HalfN returns floor(n/2).
func HalfN() *big.Int { return new(big.Int).Set(halfN) }

type jac struct{ x, y, z *big.Int } // z==0: infinity

func inf() jac { return jac{new(big.Int), big.NewInt(1), new(big.Int)} }

func modp(v *big.Int) *big.Int { return v.Mod(v, curveP) }

func dbl(p jac) jac {
	if p.z.Sign() == 0 || p.y.Sign() == 0 {
		return inf()
	}
	// a = 0
	yy := modp(new(big.Int).Mul(p.y, p.y))
	s := modp(new(big.Int).Mul(big.NewInt(4), new(big.Int).Mul(p.x, yy)))
	m := modp(new(big.Int).Mul(big.NewInt(3), new(big.Int).Mul(p.x, p.x)))
	x := modp(new(big.Int).Sub(new(big.Int).Mul(m, m), new(big.Int).Lsh(s, 1)))
	yyyy := modp(new(big.Int).Mul(yy, yy))
	y := modp(new(big.Int).Sub(new(big.Int).Mul(m, new(big.Int).Sub(s, x)), new(big.Int).Lsh(yyyy, 3)))
	z := modp(new(big.Int).Lsh(new(big.Int).Mul(p.y, p.z), 1))
	return jac{x, y, z}
}

func add(p, q jac) jac {
	if p.z.Sign() == 0 {
		return q
	}
	if q.z.Sign() == 0 {
		return p
	}
	z1z1 := modp(new(big.Int).Mul(p.z, p.z))
	z2z2 := modp(new(big.Int).Mul(q.z, q.z))
	u1 := modp(new(big.Int).Mul(p.x, z2z2))
	u2 := modp(new(big.Int).Mul(q.x, z1z1))
	s1 := modp(new(big.Int).Mul(p.y, new(big.Int).Mul(q.z, z2z2)))
	s2 := modp(new(big.Int).Mul(q.y, new(big.Int).Mul(p.z, z1z1)))
	if u1.Cmp(u2) == 0 {
		if s1.Cmp(s2) != 0 {
			return inf()
		}
		return dbl(p)
	}
	h := modp(new(big.Int).Sub(u2, u1))
	r := modp(new(big.Int).Sub(s2, s1))
	hh := modp(new(big.Int).Mul(h, h))
	hhh := modp(new(big.Int).Mul(h, hh))
	v := modp(new(big.Int).Mul(u1, hh))
	x := modp(new(big.Int).Sub(new(big.Int).Sub(new(big.Int).Mul(r, r), hhh), new(big.Int).Lsh(v, 1)))
	y := modp(new(big.Int).Sub(new(big.Int).Mul(r, new(big.Int).Sub(v, x)), new(big.Int).Mul(s1, hhh)))
	z := modp(new(big.Int).Mul(h, new(big.Int).Mul(p.z, q.z)))
	return jac{x, y, z}
}

func mul(k *big.Int, p jac) jac {
	r := inf()
	for i := k.BitLen() - 1; i >= 0; i-- {
		r = dbl(r)
		if k.Bit(i) == 1 {
			r = add(r, p)
		}
	}
	return r
}

func affine(p jac) (x, y *big.Int, ok bool) {
	if p.z.Sign() == 0 {
		return nil, nil, false
	}
	zi := new(big.Int).ModInverse(p.z, curveP)
	zi2 := modp(new(big.Int).Mul(zi, zi))
	x = modp(new(big.Int).Mul(p.x, zi2))
	y = modp(new(big.Int).Mul(p.y, new(big.Int).Mul(zi, zi2)))
	return x, y, true
}

func liftX(x *big.Int, odd bool) (jac, bool) {
	if x.Sign() < 0 || x.Cmp(curveP) >= 0 {
		return jac{}, false
	}
	rhs := new(big.Int).Exp(x, big.NewInt(3), curveP)
	rhs.Add(rhs, big7)
	rhs.Mod(rhs, curveP)
	y := new(big.Int).ModSqrt(rhs, curveP)
	if y == nil {
		return jac{}, false
	}
	if (y.Bit(0) == 1) != odd {
		y.Sub(curveP, y)
	}
	return jac{new(big.Int).Set(x), y, big.NewInt(1)}, true
}

func compress(x, y *big.Int) [33]byte {
	var out [33]byte
	out[0] = 2 + byte(y.Bit(0))
	x.FillBytes(out[1:])
	return out
}

type recKey struct {
	h   [32]byte
	sig [65]byte
}

type recVal struct {
	pub [33]byte
	ok  bool
}

var (
	recMu    sync.Mutex
	recCache = map[recKey]recVal{}
)

// Recover returns the compressed public key that the 65-byte recoverable
// signature (r || s || recid) commits to for the 32-byte message hash, by the
// textbook rule Q = r^-1 (s R - e G).  ok is false when r or s is outside
// [1,n-1], the recovery id is not in 0..3, R is not on the curve or Q is the
// point at infinity.  It does NOT apply the low-s rule; see SigCanonical.
func Recover(hash [32]byte, sig [65]byte) (pub [33]byte, ok bool) {
	k := recKey{hash, sig}
	recMu.Lock()
	if v, hit := recCache[k]; hit {
		recMu.Unlock()
		return v.pub, v.ok
	}
	recMu.Unlock()
	pub, ok = recoverSlow(hash, sig)
	recMu.Lock()
	if len(recCache) > 200000 {
		recCache = map[recKey]recVal{}
	}
	recCache[k] = recVal{pub, ok}
	recMu.Unlock()
	return
}

func recoverSlow(hash [32]byte, sig [65]byte) (pub [33]byte, ok bool) {
	r := new(big.Int).SetBytes(sig[0:32])
	s := new(big.Int).SetBytes(sig[32:64])
	recid := sig[64]
	if recid > 3 || r.Sign() == 0 || s.Sign() == 0 || r.Cmp(curveN) >= 0 || s.Cmp(curveN) >= 0 {
		return pub, false
	}
	x := new(big.Int).Set(r)
	if recid&2 != 0 {
		x.Add(x, curveN)
	}
	R, on := liftX(x, recid&1 == 1)
	if !on {
		return pub, false
	}
	e := new(big.Int).SetBytes(hash[:])
	rinv := new(big.Int).ModInverse(r, curveN)
	u1 := new(big.Int).Mul(new(big.Int).Neg(e), rinv)
	u1.Mod(u1, curveN)
	u2 := new(big.Int).Mul(s, rinv)
	u2.Mod(u2, curveN)
	G := jac{curveGx, curveGy, big.NewInt(1)}
	Q := add(mul(u1, G), mul(u2, R))
	qx, qy, fin := affine(Q)
	if !fin {
		return pub, false
	}
	return compress(qx, qy), true
}

// SigLowS reports whether s <= n/2 (the canonical, non-malleable half).
func SigLowS(sig [65]byte) bool {
	s := new(big.Int).SetBytes(sig[32:64])
	return s.Cmp(halfN) <= 0
}

// NegateS returns the signature with s replaced by n-s and the recovery
// parity flipped: the classic third-party malleation of an ECDSA signature.
func NegateS(sig [65]byte) [65]byte {
	s := new(big.Int).SetBytes(sig[32:64])
	s.Sub(curveN, s)
	out := sig
	s.FillBytes(out[32:64])
	out[64] ^= 1
	return out
}

// PubFromSec derives the compressed public key of a secret scalar.
func PubFromSec(sec [32]byte) ([33]byte, bool) {
	recMu.Lock()
	if v, hit := pubCache[sec]; hit {
		recMu.Unlock()
		return v, true
	}
	recMu.Unlock()
	p, ok := pubFromSecSlow(sec)
	if ok {
		recMu.Lock()
		if len(pubCache) > 100000 {
			pubCache = map[[32]byte][33]byte{}
		}
		pubCache[sec] = p
		recMu.Unlock()
	}
	return p, ok
}

var pubCache = map[[32]byte][33]byte{}

func pubFromSecSlow(sec [32]byte) ([33]byte, bool) {
	k := new(big.Int).SetBytes(sec[:])
	if k.Sign() == 0 || k.Cmp(curveN) >= 0 {
		return [33]byte{}, false
	}
	x, y, ok := affine(mul(k, jac{curveGx, curveGy, big.NewInt(1)}))
	if !ok {
		return [33]byte{}, false
	}
	return compress(x, y), true
}
