package model

import (
	"crypto/sha256"
	"encoding/binary"

	"golang.org/x/crypto/ripemd160" //nolint
)

// Hash is a SHA-256 digest.
type Hash [32]byte

// Addr is an address as it appears on the wire: version byte then 20-byte key.
type Addr [21]byte

// Sig is a 65-byte recoverable signature.
type Sig [65]byte

// Out is a transaction output.
type Out struct {
	Addr  Addr
	Coins uint64
	Hours uint64
}

// Txn is a transaction exactly as transmitted.
type Txn struct {
	Length uint32
	Type   uint8
	Inner  Hash
	Sigs   []Sig
	In     []Hash
	Out    []Out
}

// Ux is an unspent output: the hashed body plus the head (creation time/seq).
type Ux struct {
	Time  uint64
	BkSeq uint64
	Src   Hash
	Addr  Addr
	Coins uint64
	Hours uint64
}

// Header is a block header.
type Header struct {
	Version uint32
	Time    uint64
	BkSeq   uint64
	Fee     uint64
	Prev    Hash
	Body    Hash
	UxHash  Hash
}

// Block is a signed block.
type Block struct {
	Head Header
	Txns []Txn
	Sig  Sig
}

// Sum is SHA-256.
func Sum(b []byte) Hash { return sha256.Sum256(b) }

func u32(b []byte, v uint32) []byte {
	var t [4]byte
	binary.LittleEndian.PutUint32(t[:], v)
	return append(b, t[:]...)
}

func u64(b []byte, v uint64) []byte {
	var t [8]byte
	binary.LittleEndian.PutUint64(t[:], v)
	return append(b, t[:]...)
}

func encIns(b []byte, in []Hash) []byte {
	b = u32(b, uint32(len(in)))
	for i := range in {
		b = append(b, in[i][:]...)
	}
	return b
}

func encOuts(b []byte, out []Out) []byte {
	b = u32(b, uint32(len(out)))
	for i := range out {
		b = append(b, out[i].Addr[:]...)
		b = u64(b, out[i].Coins)
		b = u64(b, out[i].Hours)
	}
	return b
}

// Encode serialises a transaction: length, type, inner hash, then the three
// length-prefixed lists (signatures, inputs, outputs), little endian.
func (t *Txn) Encode() []byte {
	b := make([]byte, 0, 37+12+len(t.Sigs)*65+len(t.In)*32+len(t.Out)*37)
	b = u32(b, t.Length)
	b = append(b, t.Type)
	b = append(b, t.Inner[:]...)
	b = u32(b, uint32(len(t.Sigs)))
	for i := range t.Sigs {
		b = append(b, t.Sigs[i][:]...)
	}
	b = encIns(b, t.In)
	b = encOuts(b, t.Out)
	return b
}

// Size is the encoded size.
func (t *Txn) Size() uint64 {
	return uint64(37 + 12 + len(t.Sigs)*65 + len(t.In)*32 + len(t.Out)*37)
}

// Hash is the transaction id: hash of the whole encoding.
func (t *Txn) Hash() Hash { return Sum(t.Encode()) }

// InnerHash is the hash of the encoded input list followed by the output list.
func (t *Txn) InnerHash() Hash {
	return Sum(encOuts(encIns(nil, t.In), t.Out))
}

// UxID is the id of an output: hash of (source txn, address, coins, hours).
func UxID(src Hash, o Out) Hash {
	b := make([]byte, 0, 69)
	b = append(b, src[:]...)
	b = append(b, o.Addr[:]...)
	b = u64(b, o.Coins)
	b = u64(b, o.Hours)
	return Sum(b)
}

// ID is the output id of an unspent.
func (u *Ux) ID() Hash { return UxID(u.Src, Out{u.Addr, u.Coins, u.Hours}) }

// Snapshot is the hash entering the unspent-set checksum: body then head.
func (u *Ux) Snapshot() Hash {
	b := make([]byte, 0, 85)
	b = append(b, u.Src[:]...)
	b = append(b, u.Addr[:]...)
	b = u64(b, u.Coins)
	b = u64(b, u.Hours)
	b = u64(b, u.Time)
	b = u64(b, u.BkSeq)
	return Sum(b)
}

// Encode serialises a header.
func (h *Header) Encode() []byte {
	b := make([]byte, 0, 124)
	b = u32(b, h.Version)
	b = u64(b, h.Time)
	b = u64(b, h.BkSeq)
	b = u64(b, h.Fee)
	b = append(b, h.Prev[:]...)
	b = append(b, h.Body[:]...)
	b = append(b, h.UxHash[:]...)
	return b
}

// Hash is the block hash (hash of the header).
func (h *Header) Hash() Hash { return Sum(h.Encode()) }

// Merkle is the binary hash tree over a list padded with zero hashes to a
// power of two; a pair hashes to SHA-256(left || right).
func Merkle(hs []Hash) Hash {
	n := 1
	for n < len(hs) {
		n <<= 1
	}
	l := make([]Hash, n)
	copy(l, hs)
	for len(l) > 1 {
		nl := make([]Hash, len(l)/2)
		for i := range nl {
			nl[i] = Sum(append(append([]byte{}, l[2*i][:]...), l[2*i+1][:]...))
		}
		l = nl
	}
	return l[0]
}

// BodyHash is the Merkle root of the transaction ids.
func BodyHash(txns []Txn) Hash {
	hs := make([]Hash, len(txns))
	for i := range txns {
		hs[i] = txns[i].Hash()
	}
	return Merkle(hs)
}

// AddHash is SHA-256(a || b), the message signed for an input.
func AddHash(a, b Hash) Hash {
	return Sum(append(append([]byte{}, a[:]...), b[:]...))
}

// AddrFromPub is version 0 and ripemd160(sha256(sha256(pubkey))).
func AddrFromPub(pub [33]byte) Addr {
	h1 := sha256.Sum256(pub[:])
	h2 := sha256.Sum256(h1[:])
	r := ripemd160.New()
	r.Write(h2[:])
	var a Addr
	copy(a[1:], r.Sum(nil))
	return a
}

// Xor of two hashes.
func Xor(a, b Hash) Hash {
	var c Hash
	for i := range a {
		c[i] = a[i] ^ b[i]
	}
	return c
}
