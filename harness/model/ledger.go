package model

import (
	"bytes"
	"math/big"
	"sort"
)

// Verdict of the model on a submitted object.
type Verdict int

const (
	// Reject: the statement requires refusal.
	Reject Verdict = iota
	// Accept: the statement requires acceptance.
	Accept
	// Either: the model deliberately does not decide (documented narrow cases).
	Either
)

func (v Verdict) String() string { return [...]string{"reject", "accept", "either"}[v] }

// Class of a transaction-level decision.
type Class int

const (
	OK Class = iota
	Hard
	Soft
	User
	Undecided
)

func (c Class) String() string { return [...]string{"ok", "hard", "soft", "user", "undecided"}[c] }

// Params are the tunable (soft) verification parameters.
type Params struct {
	BurnFactor  uint32
	MaxTxnSize  uint32
	MaxDecimals uint8 // number of decimal places allowed (0..6)
}

// Config of a ledger.
type Config struct {
	PubKey       [33]byte
	GenesisAddr  Addr
	GenesisCoins uint64
	GenesisTime  uint64
	Unconfirmed  Params
	CreateBlock  Params
	UserParams   Params
	MaxBlockSize uint32
	Locked       map[Addr]bool
}

// PoolEntry is one unconfirmed transaction.
type PoolEntry struct {
	Txn   Txn
	Valid bool
}

// SpentInfo records where an output was spent.
type SpentInfo struct {
	Seq uint64
	Txn Hash
}

// Ledger is the sequential reference model of a node's chain state.
type Ledger struct {
	Cfg     Config
	Chain   []Block
	Unspent map[Hash]Ux
	Created map[Hash]Ux        // every output ever created
	Spent   map[Hash]SpentInfo // every output ever spent
	TxnSeq  map[Hash]uint64    // confirmed txn -> block seq
	Pool    map[Hash]*PoolEntry
	UxHash  Hash
}

var (
	max64 = new(big.Int).SetUint64(^uint64(0))
)

// NewLedger creates the model with its genesis block applied.
func NewLedger(cfg Config, genesisSig Sig) *Ledger {
	l := &Ledger{Cfg: cfg, Unspent: map[Hash]Ux{}, Created: map[Hash]Ux{}, Spent: map[Hash]SpentInfo{},
		TxnSeq: map[Hash]uint64{}, Pool: map[Hash]*PoolEntry{}}
	gt := Txn{Out: []Out{{cfg.GenesisAddr, cfg.GenesisCoins, cfg.GenesisCoins}}}
	g := Block{Head: Header{Time: cfg.GenesisTime, Body: BodyHash([]Txn{gt})}, Txns: []Txn{gt}, Sig: genesisSig}
	l.apply(g)
	return l
}

// Clone returns a deep-enough copy (transactions are immutable values).
func (l *Ledger) Clone() *Ledger {
	n := &Ledger{Cfg: l.Cfg, Chain: append([]Block{}, l.Chain...), Unspent: map[Hash]Ux{}, Created: map[Hash]Ux{},
		Spent: map[Hash]SpentInfo{}, TxnSeq: map[Hash]uint64{}, Pool: map[Hash]*PoolEntry{}, UxHash: l.UxHash}
	for k, v := range l.Unspent {
		n.Unspent[k] = v
	}
	for k, v := range l.Created {
		n.Created[k] = v
	}
	for k, v := range l.Spent {
		n.Spent[k] = v
	}
	for k, v := range l.TxnSeq {
		n.TxnSeq[k] = v
	}
	for k, v := range l.Pool {
		e := *v
		n.Pool[k] = &e
	}
	return n
}

// Head returns the head block.
func (l *Ledger) Head() *Block { return &l.Chain[len(l.Chain)-1] }

// outputsOf lists the outputs a transaction creates in a block with header h.
func outputsOf(h Header, t *Txn) []Ux {
	var src Hash
	if h.BkSeq != 0 {
		src = t.Hash()
	}
	us := make([]Ux, len(t.Out))
	for i, o := range t.Out {
		us[i] = Ux{Time: h.Time, BkSeq: h.BkSeq, Src: src, Addr: o.Addr, Coins: o.Coins, Hours: o.Hours}
	}
	return us
}

func (l *Ledger) apply(b Block) {
	seq := b.Head.BkSeq
	for i := range b.Txns {
		t := &b.Txns[i]
		th := t.Hash()
		for _, in := range t.In {
			u := l.Unspent[in]
			l.UxHash = Xor(l.UxHash, u.Snapshot())
			delete(l.Unspent, in)
			l.Spent[in] = SpentInfo{seq, th}
		}
	}
	for i := range b.Txns {
		t := &b.Txns[i]
		for _, u := range outputsOf(b.Head, t) {
			id := u.ID()
			l.Unspent[id] = u
			l.Created[id] = u
			l.UxHash = Xor(l.UxHash, u.Snapshot())
		}
		l.TxnSeq[t.Hash()] = seq
		delete(l.Pool, t.Hash())
	}
	l.Chain = append(l.Chain, b)
}

// AccruedHours is the exact number of coin hours of an output at time t:
// hours + floor(coins * (t - created) / 3.6e9); an output "created in the
// future" has earned nothing.  overflow is true when the exact value
// exceeds 2^64-1.  intermediate is true when the exact result fits but the
// product seconds*whole-coins (or seconds*droplet remainder) does not fit 64
// bits: the statement does not say what happens then.
func AccruedHours(u Ux, t uint64) (hours *big.Int, overflow, intermediate bool) {
	h := new(big.Int).SetUint64(u.Hours)
	if t < u.Time {
		return h, false, false
	}
	secs := new(big.Int).SetUint64(t - u.Time)
	prod := new(big.Int).Mul(secs, new(big.Int).SetUint64(u.Coins))
	earned := new(big.Int).Div(prod, big.NewInt(3600000000))
	h.Add(h, earned)
	whole := new(big.Int).Mul(secs, new(big.Int).SetUint64(u.Coins/1000000))
	rem := new(big.Int).Mul(secs, new(big.Int).SetUint64(u.Coins%1000000))
	if whole.Cmp(max64) > 0 || rem.Cmp(max64) > 0 {
		intermediate = true
	}
	return h, h.Cmp(max64) > 0, intermediate
}

// TxnCheck is the outcome of the transaction rules.
type TxnCheck struct {
	Class  Class
	Reason string
	Fee    uint64 // exact fee when Class==OK or Soft and computable
	FeeOK  bool
}

// wellFormed applies the structural hard rules that need no chain state.
func (l *Ledger) wellFormed(t *Txn) string {
	if len(t.In) == 0 {
		return "no inputs"
	}
	if len(t.Out) == 0 {
		return "no outputs"
	}
	if len(t.Sigs) != len(t.In) {
		return "sig count"
	}
	if len(t.In) > 65535 || len(t.Out) > 65535 {
		return "too many"
	}
	seen := map[Hash]bool{}
	for _, in := range t.In {
		if seen[in] {
			return "duplicate input"
		}
		seen[in] = true
	}
	if t.Type != 0 {
		return "type"
	}
	sum := new(big.Int)
	for _, o := range t.Out {
		if o.Coins == 0 {
			return "zero coin output"
		}
		sum.Add(sum, new(big.Int).SetUint64(o.Coins))
	}
	if sum.Cmp(max64) > 0 {
		return "output coins overflow"
	}
	if uint64(t.Length) != t.Size() {
		return "length"
	}
	th := t.Hash()
	outs := map[Hash]bool{}
	for _, o := range t.Out {
		id := UxID(th, o)
		if outs[id] {
			return "duplicate output"
		}
		outs[id] = true
	}
	if t.InnerHash() != t.Inner {
		return "inner hash"
	}
	return ""
}

// BlockTxnRules exposes the in-block hard rules for one transaction.
func (l *Ledger) BlockTxnRules(t *Txn) TxnCheck { return l.hardRules(t, true) }

// hardRules checks a transaction against the unspent set at the head.
// inBlock selects the two documented legacy relaxations for transactions
// inside a signed block.  It returns Class Hard/OK/Undecided.
func (l *Ledger) hardRules(t *Txn, inBlock bool) TxnCheck {
	// inputs must be unspent at the head
	ins := make([]Ux, len(t.In))
	for i, in := range t.In {
		u, ok := l.Unspent[in]
		if !ok {
			return TxnCheck{Class: Hard, Reason: "input not unspent"}
		}
		ins[i] = u
	}
	headTime := l.Head().Head.Time
	undecided := false
	if !inBlock {
		// output hours must not overflow; every input's accrued hours must be computable
		sum := new(big.Int)
		for _, o := range t.Out {
			sum.Add(sum, new(big.Int).SetUint64(o.Hours))
		}
		if sum.Cmp(max64) > 0 {
			return TxnCheck{Class: Hard, Reason: "output hours overflow"}
		}
		for _, u := range ins {
			_, ov, inter := AccruedHours(u, headTime)
			if ov {
				return TxnCheck{Class: Hard, Reason: "input hours overflow"}
			}
			if inter {
				undecided = true
			}
		}
	}
	if r := l.wellFormed(t); r != "" {
		return TxnCheck{Class: Hard, Reason: r}
	}
	// every signature must be canonical, recoverable and made by the owner of the input
	for i, s := range t.Sigs {
		if s == (Sig{}) {
			return TxnCheck{Class: Hard, Reason: "unsigned input"}
		}
		msg := AddHash(t.Inner, t.In[i])
		pub, ok := Recover([32]byte(msg), [65]byte(s))
		if !ok || !SigLowS([65]byte(s)) {
			return TxnCheck{Class: Hard, Reason: "bad signature"}
		}
		if AddrFromPub(pub) != ins[i].Addr {
			return TxnCheck{Class: Hard, Reason: "signature not by owner"}
		}
	}
	// coins in == coins out
	cin, cout := new(big.Int), new(big.Int)
	for _, u := range ins {
		cin.Add(cin, new(big.Int).SetUint64(u.Coins))
	}
	for _, o := range t.Out {
		cout.Add(cout, new(big.Int).SetUint64(o.Coins))
	}
	if cin.Cmp(max64) > 0 {
		return TxnCheck{Class: Hard, Reason: "input coins overflow"}
	}
	if cin.Cmp(cout) != 0 {
		return TxnCheck{Class: Hard, Reason: "coins not conserved"}
	}
	// hours: sum of accrued input hours >= sum of output hours
	hin := new(big.Int)
	for _, u := range ins {
		h, ov, inter := AccruedHours(u, headTime)
		if inter {
			undecided = true
		}
		if ov {
			// documented legacy rule: inside blocks such an input counts as zero
			continue
		}
		hin.Add(hin, h)
	}
	if hin.Cmp(max64) > 0 {
		return TxnCheck{Class: Hard, Reason: "input hours sum overflow"}
	}
	hout := new(big.Int)
	for _, o := range t.Out {
		hout.Add(hout, new(big.Int).SetUint64(o.Hours))
	}
	houtWrapped := new(big.Int).And(hout, max64)
	if inBlock && hout.Cmp(max64) > 0 {
		// documented legacy rule: output-hour overflow is not checked inside a
		// block; the wrapped sum is compared.
		if hin.Cmp(houtWrapped) < 0 {
			return TxnCheck{Class: Hard, Reason: "insufficient hours"}
		}
	} else if hin.Cmp(hout) < 0 {
		return TxnCheck{Class: Hard, Reason: "insufficient hours"}
	}
	if undecided {
		return TxnCheck{Class: Undecided, Reason: "64-bit intermediate overflow region"}
	}
	fee := new(big.Int).Sub(hin, houtWrapped)
	return TxnCheck{Class: OK, Fee: fee.Uint64(), FeeOK: true}
}

// softRules: size, fee, locked inputs, decimal places.
func (l *Ledger) softRules(t *Txn, p Params, fee uint64) string {
	if t.Size() > uint64(p.MaxTxnSize) {
		return "too large"
	}
	hout := new(big.Int)
	for _, o := range t.Out {
		hout.Add(hout, new(big.Int).SetUint64(o.Hours))
	}
	if fee == 0 {
		return "no fee"
	}
	total := new(big.Int).Add(hout, new(big.Int).SetUint64(fee))
	if total.Cmp(max64) > 0 {
		return "hours+fee overflow"
	}
	// required = ceil(total / burn)
	bf := new(big.Int).SetUint64(uint64(p.BurnFactor))
	req := new(big.Int).Add(total, new(big.Int).Sub(bf, big.NewInt(1)))
	req.Div(req, bf)
	if new(big.Int).SetUint64(fee).Cmp(req) < 0 {
		return "insufficient fee"
	}
	for _, in := range t.In {
		if l.Cfg.Locked[l.Unspent[in].Addr] {
			return "locked"
		}
	}
	div := uint64(1)
	for i := uint8(0); i < 6-p.MaxDecimals; i++ {
		div *= 10
	}
	for _, o := range t.Out {
		if o.Coins%div != 0 {
			return "decimals"
		}
	}
	return ""
}

// CheckSingle classifies an unconfirmed transaction against the head.
func (l *Ledger) CheckSingle(t *Txn, p Params) TxnCheck {
	c := l.hardRules(t, false)
	if c.Class != OK {
		return c
	}
	if r := l.softRules(t, p, c.Fee); r != "" {
		return TxnCheck{Class: Soft, Reason: r, Fee: c.Fee, FeeOK: true}
	}
	return c
}

// CheckUser classifies a user-submitted transaction.
func (l *Ledger) CheckUser(t *Txn) TxnCheck {
	for _, o := range t.Out {
		if o.Addr == (Addr{}) {
			return TxnCheck{Class: User, Reason: "null address"}
		}
	}
	return l.CheckSingle(t, l.Cfg.UserParams)
}

// InjectForeign applies a network submission to the model pool and returns
// the classification and whether the transaction was already pooled.
func (l *Ledger) InjectForeign(t *Txn, p Params) (TxnCheck, bool) {
	c := l.CheckSingle(t, p)
	if c.Class == Hard || c.Class == Undecided {
		return c, false
	}
	h := t.Hash()
	if e, ok := l.Pool[h]; ok {
		e.Valid = c.Class == OK
		return c, true
	}
	l.Pool[h] = &PoolEntry{Txn: *t, Valid: c.Class == OK}
	return c, false
}

// InjectUser applies a user submission.
func (l *Ledger) InjectUser(t *Txn) (TxnCheck, bool) {
	c := l.CheckUser(t)
	if c.Class != OK {
		return c, false
	}
	h := t.Hash()
	if e, ok := l.Pool[h]; ok {
		e.Valid = true
		return c, true
	}
	l.Pool[h] = &PoolEntry{Txn: *t, Valid: true}
	return c, false
}

// Refresh re-checks every pooled transaction; returns hashes that turned valid.
func (l *Ledger) Refresh(p Params) (nowValid []Hash, undecided bool) {
	for _, h := range l.PoolHashes() {
		e := l.Pool[h]
		c := l.CheckSingle(&e.Txn, p)
		if c.Class == Undecided {
			undecided = true
			continue
		}
		if c.Class == OK {
			if !e.Valid {
				nowValid = append(nowValid, h)
			}
			e.Valid = true
		} else {
			e.Valid = false
		}
	}
	return
}

// RemoveInvalid drops pooled transactions that violate a hard rule.
func (l *Ledger) RemoveInvalid() (removed []Hash, undecided bool) {
	for _, h := range l.PoolHashes() {
		c := l.hardRules(&l.Pool[h].Txn, false)
		if c.Class == Undecided {
			undecided = true
			continue
		}
		if c.Class == Hard {
			removed = append(removed, h)
			delete(l.Pool, h)
		}
	}
	return
}

// PoolHashes lists pool keys in ascending order.
func (l *Ledger) PoolHashes() []Hash {
	hs := make([]Hash, 0, len(l.Pool))
	for h := range l.Pool {
		hs = append(hs, h)
	}
	sort.Slice(hs, func(i, j int) bool { return bytes.Compare(hs[i][:], hs[j][:]) < 0 })
	return hs
}

// BlockVerdict is the model's decision on a submitted signed block.
type BlockVerdict struct {
	V      Verdict
	Reason string
}

// CheckHeader applies the rules that do not depend on the transactions'
// validity: signature, not a second genesis, sequence, time, parent hash and
// body hash.  It returns Accept when all of them hold.
func (l *Ledger) CheckHeader(b *Block) BlockVerdict {
	hh := b.Head.Hash()
	pub, ok := Recover([32]byte(hh), [65]byte(b.Sig))
	if !ok || pub != l.Cfg.PubKey || !SigLowS([65]byte(b.Sig)) {
		return BlockVerdict{Reject, "signature"}
	}
	head := l.Head()
	if hh == l.Chain[0].Head.Hash() {
		return BlockVerdict{Reject, "second genesis"}
	}
	if b.Head.BkSeq != head.Head.BkSeq+1 {
		return BlockVerdict{Reject, "seq"}
	}
	if b.Head.Time <= head.Head.Time {
		return BlockVerdict{Reject, "time"}
	}
	if b.Head.Prev != head.Head.Hash() {
		return BlockVerdict{Reject, "prev hash"}
	}
	if b.Head.Body != BodyHash(b.Txns) {
		return BlockVerdict{Reject, "body hash"}
	}
	return BlockVerdict{Accept, ""}
}

// CheckBlock decides whether a (strict-mode) node must append b.
func (l *Ledger) CheckBlock(b *Block) BlockVerdict {
	if hv := l.CheckHeader(b); hv.V != Accept {
		return hv
	}
	if len(b.Txns) == 0 {
		return BlockVerdict{Reject, "no transactions"}
	}
	und := false
	spent := map[Hash]bool{}
	made := map[Hash]bool{}
	for i := range b.Txns {
		t := &b.Txns[i]
		c := l.hardRules(t, true)
		if c.Class == Hard {
			return BlockVerdict{Reject, "txn: " + c.Reason}
		}
		if c.Class == Undecided {
			und = true
		}
		for _, in := range t.In {
			if spent[in] {
				return BlockVerdict{Reject, "double spend in block"}
			}
			spent[in] = true
		}
		th := t.Hash()
		for _, o := range t.Out {
			id := UxID(th, o)
			if made[id] {
				return BlockVerdict{Reject, "duplicate output in block"}
			}
			if _, exists := l.Unspent[id]; exists {
				return BlockVerdict{Reject, "output id collides with unspent"}
			}
			made[id] = true
		}
	}
	if b.Head.UxHash != l.UxHash {
		return BlockVerdict{Reject, "unspent checksum"}
	}
	if und {
		return BlockVerdict{Either, "intermediate overflow region"}
	}
	return BlockVerdict{Accept, ""}
}

// Apply appends an accepted block.
func (l *Ledger) Apply(b Block) { l.apply(b) }

// TotalCoins sums the coins of the unspent set exactly.
func (l *Ledger) TotalCoins() *big.Int {
	s := new(big.Int)
	for _, u := range l.Unspent {
		s.Add(s, new(big.Int).SetUint64(u.Coins))
	}
	return s
}

// UnspentIDs lists unspent ids in ascending order.
func (l *Ledger) UnspentIDs() []Hash {
	hs := make([]Hash, 0, len(l.Unspent))
	for h := range l.Unspent {
		hs = append(hs, h)
	}
	sort.Slice(hs, func(i, j int) bool { return bytes.Compare(hs[i][:], hs[j][:]) < 0 })
	return hs
}

// Priority is floor(min(fee*1024, 2^64-1) / size): the documented block
// creation order key (descending), ties broken by ascending transaction id.
func Priority(fee uint64, size uint64) uint64 {
	f := new(big.Int).Mul(new(big.Int).SetUint64(fee), big.NewInt(1024))
	if f.Cmp(max64) > 0 {
		f.Set(max64)
	}
	return f.Div(f, new(big.Int).SetUint64(size)).Uint64()
}

// Candidate is a pooled transaction eligible for the next block.
type Candidate struct {
	H    Hash
	T    *Txn
	Prio uint64
	Size uint64
}

// Candidates returns the pooled transactions that pass hard and soft rules
// with the block-creation parameters, in creation order.
func (l *Ledger) Candidates() (cs []Candidate, undecided bool) {
	for _, h := range l.PoolHashes() {
		e := l.Pool[h]
		c := l.CheckSingle(&e.Txn, l.Cfg.CreateBlock)
		if c.Class == Undecided {
			undecided = true
			continue
		}
		if c.Class != OK {
			continue
		}
		cs = append(cs, Candidate{H: h, T: &e.Txn, Prio: Priority(c.Fee, e.Txn.Size()), Size: e.Txn.Size()})
	}
	sort.SliceStable(cs, func(i, j int) bool {
		if cs[i].Prio != cs[j].Prio {
			return cs[i].Prio > cs[j].Prio
		}
		return bytes.Compare(cs[i].H[:], cs[j].H[:]) < 0
	})
	return
}
