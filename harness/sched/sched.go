// Package sched is the tape-driven goroutine scheduler as a reusable package (the engines E1 and E2 carry their own
// copies, e1/sched.go and e2/sched.go, where the explanation lives; see also DESIGN.md 4.2).  Goroutines park at
// Yield; a controller waits for quiescence (synctest.Wait), lists the parked goroutines in a canonical order
// (CollectParked), releases one (Release) and lets it run (StepOnce).
package sched

import (
	"runtime"
	"sort"
	"strconv"
	"strings"
	"time"
)

const maxSlots = 1 << 15

type slot struct {
	goid     uint64
	parent   uint64
	role     string // bottom frame of the goroutine: stable across runs
	label    string // current yield label
	name     string // stable identity, assigned at first sighting
	parked   bool
	released bool
	harness  bool // goroutine belongs to the harness (actors, peers)
}

var (
	slots   [maxSlots]slot
	active  [maxSlots]int32
	nActive int
	wakeAt  int64 // fake-clock instant (UnixNano) up to which parked goroutines may sleep in one go
	schedOn bool
	// abortAll makes every yield and every simulated network operation return at once: used to let goroutines
	// run out when a run is over.
	abortAll bool
	children map[string]int
)

//go:norace
func Reset() {
	for i := 0; i < nActive; i++ {
		slots[active[i]] = slot{}
	}
	nActive = 0
	wakeAt = 0
	abortAll = false
	schedOn = true
	children = map[string]int{}
}

//go:norace
func Off() {
	schedOn = false
	abortAll = true
	for i := 0; i < nActive; i++ {
		slots[active[i]].released = true
	}
}

//go:norace
func IsAborted() bool { return abortAll }

// curGoid parses the goroutine id from the stack header.
func curGoid() uint64 {
	var b [48]byte
	n := runtime.Stack(b[:], false)
	// "goroutine 123 ["
	s := b[:n]
	i := len("goroutine ")
	var v uint64
	for ; i < len(s) && s[i] >= '0' && s[i] <= '9'; i++ {
		v = v*10 + uint64(s[i]-'0')
	}
	return v
}

// ancestry returns the creator's goroutine id and the bottom frame (function
// the goroutine was started with) of the calling goroutine.
func ancestry() (parent uint64, role string) {
	buf := make([]byte, 1<<15)
	n := runtime.Stack(buf, false)
	lines := strings.Split(string(buf[:n]), "\n")
	for i := len(lines) - 1; i >= 0; i-- {
		l := lines[i]
		if strings.HasPrefix(l, "created by ") {
			if j := strings.LastIndex(l, " in goroutine "); j >= 0 {
				parent, _ = strconv.ParseUint(strings.TrimSpace(l[j+len(" in goroutine "):]), 10, 64)
			}
			// the frame before "created by" is two lines up (function line, then file line)
			if i >= 2 {
				role = funcName(lines[i-2])
			}
			return
		}
	}
	// no "created by": main goroutine of the bubble / test
	for i := len(lines) - 1; i >= 0; i-- {
		if l := lines[i]; l != "" && !strings.HasPrefix(l, "\t") && !strings.HasPrefix(l, "goroutine ") {
			role = funcName(l)
			break
		}
	}
	return
}

func funcName(l string) string {
	if k := strings.LastIndex(l, "("); k > 0 {
		l = l[:k]
	}
	if k := strings.LastIndex(l, "/"); k >= 0 {
		l = l[k+1:]
	}
	return l
}

//go:norace
func claim(gid uint64) *slot {
	s := &slots[gid%maxSlots]
	if s.goid != gid {
		parent, role := ancestry()
		*s = slot{goid: gid, parent: parent, role: role}
		active[nActive] = int32(gid % maxSlots)
		nActive++
	}
	return s
}

// Register gives the calling harness goroutine a fixed identity.
//
//go:norace
func Register(name string) {
	s := claim(curGoid())
	s.name = name
	s.harness = true
}

func fakeNow() int64 { return time.Now().UnixNano() }

// Yield parks the calling goroutine until the controller releases it.
//
//go:norace
func Yield(label string) {
	if !schedOn {
		return
	}
	s := claim(curGoid())
	s.label = label
	s.released = false
	s.parked = true
	for !s.released {
		d := wakeAt - fakeNow()
		if d <= 0 {
			d = 1
		}
		time.Sleep(time.Duration(d))
	}
	s.parked = false
}

type Parked struct {
	Idx     int32
	Name    string
	Label   string
	Harness bool
}

// CollectParked names newly seen goroutines and returns the parked ones in canonical order.
//
//go:norace
func CollectParked() []Parked {
	// name new goroutines: by (parent name, role), ordinal among siblings in goroutine-id order
	var fresh []int32
	for i := 0; i < nActive; i++ {
		if s := &slots[active[i]]; s.name == "" {
			fresh = append(fresh, active[i])
		}
	}
	sort.Slice(fresh, func(a, b int) bool { return slots[fresh[a]].goid < slots[fresh[b]].goid })
	for _, ix := range fresh {
		s := &slots[ix]
		pn := "?"
		if p := &slots[s.parent%maxSlots]; s.parent != 0 && p.goid == s.parent && p.name != "" {
			pn = p.name
		}
		key := pn + "/" + s.role
		children[key]++
		s.name = key + "#" + strconv.Itoa(children[key])
	}
	var out []Parked
	for i := 0; i < nActive; i++ {
		if s := &slots[active[i]]; s.parked && !s.released {
			out = append(out, Parked{Idx: active[i], Name: s.name, Label: s.label, Harness: s.harness})
		}
	}
	sort.Slice(out, func(a, b int) bool {
		if out[a].Name != out[b].Name {
			return out[a].Name < out[b].Name
		}
		return out[a].Label < out[b].Label
	})
	return out
}

//go:norace
func Release(ix int32) {
	slots[ix].released = true
}

//go:norace
func setWakeAt(t int64) { wakeAt = t }

// step lets released goroutines run: everything parked wakes at the next fake nanosecond.
func StepOnce() {
	setWakeAt(fakeNow() + 1)
	time.Sleep(1)
}

// Advance moves the fake clock by d while parked goroutines stay parked.
func Advance(d time.Duration) {
	setWakeAt(fakeNow() + 1 + int64(d))
	time.Sleep(1)
	time.Sleep(d)
}

// Rendezvous scores a (goroutine, label) pair under a drawn value: the controller releases the lowest score, so a
// schedule stays meaningful when goroutines come and go during shrinking.
func Rendezvous(v uint64, name, label string) uint64 {
	h := uint64(1469598103934665603) ^ (v * 0x9e3779b97f4a7c15)
	for i := 0; i < len(name); i++ {
		h ^= uint64(name[i])
		h *= 1099511628211
	}
	h ^= 0xff
	h *= 1099511628211
	for i := 0; i < len(label); i++ {
		h ^= uint64(label[i])
		h *= 1099511628211
	}
	h ^= h >> 29
	h *= 0xbf58476d1ce4e5b9
	h ^= h >> 32
	return h
}

// IsCurrent reports whether the calling goroutine has the given registered name.
//
//go:norace
func IsCurrent(name string) bool {
	s := &slots[curGoid()%maxSlots]
	return s.goid == curGoid() && s.name == name
}
