package sim

import (
	"crypto/sha256"
	"encoding/binary"
	"encoding/hex"
	"fmt"
	"sort"
	"strings"
)

// Violation describes one property violation found in a run.
type Violation struct {
	Property string `json:"property"`
	// Class is a short stable identifier of what went wrong (used to decide
	// "same violation" while shrinking).
	Class string `json:"class"`
	// Signature identifies the distinguishing features of the failing input /
	// history; it is what the known-findings file matches against.
	Signature string `json:"signature"`
	Detail    string `json:"detail"`
	Step      int    `json:"step"`
}

// HarnessError is panicked by harness code that detects its own inconsistency;
// the worker maps it to exit status 2 and never to a VIOLATION line.
type HarnessError struct{ Msg string }

func (e HarnessError) Error() string { return "harness error: " + e.Msg }

// Harnessf raises a HarnessError.
func Harnessf(format string, a ...interface{}) {
	panic(HarnessError{fmt.Sprintf(format, a...)})
}

// Ctx is what an engine gets for one run.
type Ctx struct {
	Property string
	Profile  string
	Tier     string
	Seed     uint64 // run seed (already mixed)
	T        *Tape
	Dir      string // private scratch directory of this run
	Replay   bool

	Step      int
	SimNanos  int64 // simulated time covered, maintained by the engine
	logHash   [32]byte
	LogLines  []string
	KeepLog   bool
	Counters  map[string]int64
	kinds     []byte // sequence of event kinds + outcome bits, for the run fingerprint
	States    map[uint64]struct{}
	Viol      *Violation
	Undecided int64
	// Knobs are the per-run configuration values, reported in replay files.
	Knobs map[string]int64
	// Sample is a short human-readable description of this run for evidence.
	Sample []string
	// Notes are diagnostic remarks (e.g. why a run ended early); the first few are kept in the summary.
	Notes []string
	// Tainted is set by an engine that knows goroutines were left behind (a detected hang): the worker process exits after this run.
	Tainted bool
	// Bail, when set by the worker, records this run's outcome and leaves the process at once: for engines whose
	// failed runs leave goroutines that never finish (the fake clock of a bubble with pending timers never deadlocks,
	// so such a bubble could not be left in any other way).
	Bail func()
	// Known is the set of "class|signature" of recorded findings; KnownHits collects those an engine chose to
	// record without ending the run (see KnownHit).
	Known     map[string]bool
	KnownHits []Violation
}

// NewCtx creates a run context.
func NewCtx(property, profile, tier string, seed uint64, t *Tape, dir string) *Ctx {
	return &Ctx{Property: property, Profile: profile, Tier: tier, Seed: seed, T: t, Dir: dir,
		Counters: map[string]int64{}, States: map[uint64]struct{}{}, Knobs: map[string]int64{}}
}

// Logf appends one logical event to the hash-chained event log.  It never
// draws from the tape and never reads a clock.
func (c *Ctx) Logf(format string, a ...interface{}) {
	line := fmt.Sprintf("%d t=%d ", c.Step, c.SimNanos) + fmt.Sprintf(format, a...)
	h := sha256.New()
	h.Write(c.logHash[:])
	h.Write([]byte(line))
	copy(c.logHash[:], h.Sum(nil))
	c.LogLines = append(c.LogLines, line)
	if !c.KeepLog && len(c.LogLines) > 800 {
		c.LogLines = append([]string{}, c.LogLines[400:]...)
	}
}

// LogHash is the hash of the whole event log so far.
func (c *Ctx) LogHash() string { return hex.EncodeToString(c.logHash[:8]) }

// Count increments a fault / probe counter.
func (c *Ctx) Count(name string) { c.Counters[name]++ }

// CountN adds n to a counter.
func (c *Ctx) CountN(name string, n int64) { c.Counters[name] += n }

// Kind records an event kind and outcome bit into the run fingerprint.
func (c *Ctx) Kind(kind byte, ok bool) {
	b := kind << 1
	if ok {
		b |= 1
	}
	c.kinds = append(c.kinds, b)
}

// State records an abstract state (engine-defined abstraction).
func (c *Ctx) State(parts ...uint64) {
	var buf [8]byte
	h := sha256.New()
	for _, p := range parts {
		binary.LittleEndian.PutUint64(buf[:], p)
		h.Write(buf[:])
	}
	s := h.Sum(nil)
	c.States[binary.LittleEndian.Uint64(s[:8])] = struct{}{}
}

// Fingerprint is the hash of the event-kind/outcome sequence of the run.
func (c *Ctx) Fingerprint() uint64 {
	s := sha256.Sum256(c.kinds)
	return binary.LittleEndian.Uint64(s[:8])
}

// Violate records the first violation of the run (later ones are ignored so
// that the reported one is the earliest) and returns true for convenience.
func (c *Ctx) Violate(class, signature, format string, a ...interface{}) bool {
	if c.Viol == nil {
		c.Viol = &Violation{Property: c.Property, Class: class, Signature: signature,
			Detail: fmt.Sprintf(format, a...), Step: c.Step}
		c.Logf("VIOLATION class=%s sig=%s", class, signature)
	}
	return true
}

// KnownHit reports whether class/signature is a recorded finding and, if so, records that it was observed
// without ending the run.  For engines in which a recorded finding (e.g. a data-race report) leaves the
// run in a state that can still be judged, so that it does not hide a different violation of the same run.
func (c *Ctx) KnownHit(class, signature, format string, a ...interface{}) bool {
	if !c.Known[class+"|"+signature] {
		return false
	}
	for _, k := range c.KnownHits {
		if k.Class == class && k.Signature == signature {
			return true
		}
	}
	c.KnownHits = append(c.KnownHits, Violation{Property: c.Property, Class: class, Signature: signature,
		Detail: fmt.Sprintf(format, a...), Step: c.Step})
	c.Logf("KNOWN-FINDING class=%s sig=%s", class, signature)
	return true
}

// Notef records a diagnostic note together with the log tail.
func (c *Ctx) Notef(format string, a ...interface{}) {
	c.Notes = append(c.Notes, fmt.Sprintf("seed=%d step=%d ", c.Seed, c.Step)+fmt.Sprintf(format, a...))
}

// Failed reports whether a violation has been recorded.
func (c *Ctx) Failed() bool { return c.Viol != nil }

// SortedCounters renders counters deterministically.
func SortedCounters(m map[string]int64) string {
	ks := make([]string, 0, len(m))
	for k := range m {
		ks = append(ks, k)
	}
	sort.Strings(ks)
	var sb strings.Builder
	for _, k := range ks {
		fmt.Fprintf(&sb, "%s=%d ", k, m[k])
	}
	return sb.String()
}
