package sim

// Shrink minimises a failing tape.  test(candidate) must run the simulation on
// ReplayTape(candidate) and return (true, recorded) when the same violation
// class is reproduced, where recorded is the canonical tape the run actually
// consumed.  budget bounds the number of candidate executions.
func Shrink(tape []uint64, test func([]uint64) (bool, []uint64), budget int) ([]uint64, int) {
	used := 0
	try := func(c []uint64) ([]uint64, bool) {
		if used >= budget {
			return nil, false
		}
		used++
		ok, rec := test(c)
		if !ok {
			return nil, false
		}
		return trimZeros(rec), true
	}
	cur := trimZeros(tape)

	for round := 0; round < 8 && used < budget; round++ {
		progress := false

		// 1. shortest failing prefix (binary search, then accept)
		lo, hi := 0, len(cur)
		for lo < hi && used < budget {
			mid := (lo + hi) / 2
			if r, ok := try(cur[:mid]); ok {
				if len(r) < len(cur) {
					progress = true
				}
				cur = r
				hi = len(cur)
				if mid < hi {
					hi = mid
				}
			} else {
				lo = mid + 1
			}
		}

		// 2. delete chunks, 3. zero chunks
		for _, mode := range []int{0, 1} {
			for size := len(cur) / 2; size >= 1 && used < budget; size /= 2 {
				for i := 0; i+size <= len(cur) && used < budget; {
					var cand []uint64
					if mode == 0 {
						cand = append(append([]uint64{}, cur[:i]...), cur[i+size:]...)
					} else {
						allZero := true
						for _, v := range cur[i : i+size] {
							if v != 0 {
								allZero = false
							}
						}
						if allZero {
							i += size
							continue
						}
						cand = append([]uint64{}, cur...)
						for j := i; j < i+size; j++ {
							cand[j] = 0
						}
					}
					if r, ok := try(cand); ok && less(r, cur) {
						cur = r
						progress = true
					} else {
						i += size
					}
				}
			}
		}

		// 4. lower single values
		for i := 0; i < len(cur) && used < budget; i++ {
			for cur[i] != 0 && used < budget {
				v := cur[i]
				done := false
				for _, nv := range []uint64{0, v / 2, v - 1} {
					if nv >= v {
						continue
					}
					cand := append([]uint64{}, cur...)
					cand[i] = nv
					if r, ok := try(cand); ok && less(r, cur) {
						cur = r
						progress = true
						done = true
						break
					}
				}
				if !done || i >= len(cur) {
					break
				}
			}
		}
		if !progress {
			break
		}
	}
	return cur, used
}

func trimZeros(t []uint64) []uint64 {
	n := len(t)
	for n > 0 && t[n-1] == 0 {
		n--
	}
	return append([]uint64{}, t[:n]...)
}

// less orders tapes by (length, sum-lexicographic): shorter is simpler.
func less(a, b []uint64) bool {
	if len(a) != len(b) {
		return len(a) < len(b)
	}
	for i := range a {
		if a[i] != b[i] {
			return a[i] < b[i]
		}
	}
	return false
}
