// Package sim is the engine-independent core of the deterministic simulator:
// the choice tape (single source of every decision), the seeded PRNG behind it,
// the hash-chained event log, per-run statistics, the result record and the
// tape shrinker.  Nothing in this package reads a real clock or any other
// source of nondeterminism.
package sim

import (
	"fmt"
)

// Rand is xoshiro256** seeded through splitmix64.  It is the only PRNG of the
// simulator and is only ever consumed through a Tape.
type Rand struct{ s [4]uint64 }

func splitmix(x *uint64) uint64 {
	*x += 0x9e3779b97f4a7c15
	z := *x
	z = (z ^ (z >> 30)) * 0xbf58476d1ce4e5b9
	z = (z ^ (z >> 27)) * 0x94d049bb133111eb
	return z ^ (z >> 31)
}

// NewRand returns a generator whose stream is a pure function of seed.
func NewRand(seed uint64) *Rand {
	r := &Rand{}
	x := seed
	for i := range r.s {
		r.s[i] = splitmix(&x)
	}
	return r
}

func rotl(x uint64, k uint) uint64 { return (x << k) | (x >> (64 - k)) }

// Uint64 returns the next value of the stream.
func (r *Rand) Uint64() uint64 {
	s := &r.s
	res := rotl(s[1]*5, 7) * 9
	t := s[1] << 17
	s[2] ^= s[0]
	s[3] ^= s[1]
	s[1] ^= s[2]
	s[0] ^= s[3]
	s[2] ^= t
	s[3] = rotl(s[3], 45)
	return res
}

// Mix derives a sub-seed from a seed and a list of integers (run index,
// property number ...) so that runs are independent of how they are spread
// over worker processes.
func Mix(seed uint64, xs ...uint64) uint64 {
	x := seed ^ 0x5851f42d4c957f2d
	v := splitmix(&x)
	for _, y := range xs {
		x ^= y*0x9e3779b97f4a7c15 + 0x7f4a7c15
		v ^= splitmix(&x)
	}
	return v
}

// MixStr folds a string into a seed.
func MixStr(seed uint64, s string) uint64 {
	h := uint64(1469598103934665603)
	for i := 0; i < len(s); i++ {
		h ^= uint64(s[i])
		h *= 1099511628211
	}
	return Mix(seed, h)
}

// Tape is the choice tape.  Every decision of a run is Draw(label, n): an
// integer in [0,n).  While exploring, values come from the PRNG and are
// recorded; while replaying or shrinking, they come from a fixed prefix and an
// exhausted prefix yields zeros.  By convention 0 is always the simplest
// choice (no fault, no delay, smallest argument), which is what makes
// shrinking towards shorter tapes and smaller values meaningful.
type Tape struct {
	pre    []uint64
	pos    int
	rng    *Rand
	Rec    []uint64
	Labels []string // only filled when Trace is set
	Trace  bool
	Limit  int // maximum number of draws; further draws return 0 and set Exhausted
	// Exhausted is set when a replay prefix ran out or Limit was reached.
	Exhausted bool
}

// NewTape returns an exploring tape.
func NewTape(seed uint64, limit int) *Tape {
	return &Tape{rng: NewRand(seed), Limit: limit}
}

// ReplayTape returns a tape that replays pre and then yields zeros.
func ReplayTape(pre []uint64) *Tape {
	return &Tape{pre: pre, Limit: len(pre) + 1<<20}
}

// Draw returns the next choice in [0,n).  n==0 is treated as 1.
func (t *Tape) Draw(label string, n uint64) uint64 {
	if n <= 1 {
		// No real choice: do not consume tape, keeps tapes short and stable.
		return 0
	}
	var v uint64
	switch {
	case len(t.Rec) >= t.Limit:
		t.Exhausted = true
	case t.rng != nil:
		v = t.rng.Uint64() % n
	case t.pos < len(t.pre):
		v = t.pre[t.pos] % n
		t.pos++
	default:
		t.Exhausted = true
	}
	t.Rec = append(t.Rec, v)
	if t.Trace {
		t.Labels = append(t.Labels, fmt.Sprintf("%s/%d=%d", label, n, v))
	}
	return v
}

// Int is Draw for ints.
func (t *Tape) Int(label string, n int) int {
	if n <= 0 {
		return 0
	}
	return int(t.Draw(label, uint64(n)))
}

// Range returns a value in [lo,hi] (inclusive); lo is the simplest.
func (t *Tape) Range(label string, lo, hi int) int {
	if hi <= lo {
		return lo
	}
	return lo + int(t.Draw(label, uint64(hi-lo+1)))
}

// Chance is true with probability num/den; the zero tape value means false.
func (t *Tape) Chance(label string, num, den uint64) bool {
	if num == 0 {
		return false
	}
	if num >= den {
		return true
	}
	return t.Draw(label, den) >= den-num
}

// Bool is an even coin; zero means false.
func (t *Tape) Bool(label string) bool { return t.Draw(label, 2) == 1 }

// Pick returns an index chosen by weight; index 0 is the simplest and should
// carry the "nothing special" alternative.
func (t *Tape) Pick(label string, weights ...int) int {
	total := 0
	for _, w := range weights {
		total += w
	}
	if total <= 0 {
		return 0
	}
	v := int(t.Draw(label, uint64(total)))
	for i, w := range weights {
		if v < w {
			return i
		}
		v -= w
	}
	return len(weights) - 1
}

// Bytes draws n bytes.
func (t *Tape) Bytes(label string, n int) []byte {
	b := make([]byte, n)
	for i := 0; i < n; i += 8 {
		v := t.Draw(label, 1<<63)
		for j := 0; j < 8 && i+j < n; j++ {
			b[i+j] = byte(v >> (8 * uint(j)))
		}
	}
	return b
}

// Used is the number of choices consumed so far.
func (t *Tape) Used() int { return len(t.Rec) }
