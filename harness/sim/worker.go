package sim

import (
	crand "crypto/rand"
	"encoding/binary"
	"encoding/json"
	"fmt"
	"io"
	mrand "math/rand"
	"os"
	"os/exec"
	"path/filepath"
	"runtime"
	"runtime/pprof"
	"sort"
	"strings"
	"syscall"
	"testing"
	"testing/synctest"
	"time"

	secp256k1 "github.com/skycoin/skycoin/src/cipher/secp256k1-go"
)

// Job is what the driver (check.py) hands to a worker process.
type Job struct {
	Property string  `json:"property"`
	Profile  string  `json:"profile"`
	Tier     string  `json:"tier"`
	Seed     uint64  `json:"seed"`
	First    int     `json:"first"`  // first run index of this worker
	Stride   int     `json:"stride"` // number of workers
	MaxRuns  int     `json:"max_runs"`
	BudgetS  float64 `json:"budget_s"`
	Out      string  `json:"out"`
	Scratch  string  `json:"scratch"`
	// Replay: run exactly this tape once (fresh process), no exploration.
	ReplayTape   []uint64 `json:"replay_tape,omitempty"`
	ReplaySeed   uint64   `json:"replay_seed,omitempty"`
	ReplayClass  string   `json:"replay_class,omitempty"`
	ShrinkBudget int      `json:"shrink_budget"`
	TapeLimit    int      `json:"tape_limit"`
	LogDump      bool     `json:"log_dump"`
	// Known lists "class|signature" of recorded findings: they are reported but not shrunk.
	Known []string `json:"known,omitempty"`
	// ShrinkExternal: minimise ReplayTape for violation ReplayClass/ReplaySig, running every candidate in a fresh
	// child process of this binary (for engines whose failing runs cannot be repeated inside one process).
	ShrinkExternal bool    `json:"shrink_external,omitempty"`
	ReplaySig      string  `json:"replay_sig,omitempty"`
	ShrinkWallS    float64 `json:"shrink_wall_s,omitempty"`
}

// Found is one violation with everything needed to replay it.
type Found struct {
	Violation  Violation        `json:"violation"`
	RunIndex   int              `json:"run_index"`
	RunSeed    uint64           `json:"run_seed"`
	Tape       []uint64         `json:"tape"`
	OrigLen    int              `json:"orig_tape_len"`
	Minimised  bool             `json:"minimised"`
	ShrinkRuns int              `json:"shrink_runs"`
	LogHash    string           `json:"log_hash"`
	LogTail    []string         `json:"log_tail"`
	Knobs      map[string]int64 `json:"knobs"`
	Counters   map[string]int64 `json:"counters"`
}

// Summary is what a worker writes when it is done.
type Summary struct {
	Property     string            `json:"property"`
	Profile      string            `json:"profile"`
	Runs         int               `json:"runs"`
	Steps        int64             `json:"steps"`
	SimSeconds   float64           `json:"sim_seconds"`
	WallS        float64           `json:"wall_s"`
	Counters     map[string]int64  `json:"counters"`
	Fingerprints []uint64          `json:"fingerprints"`
	Nontrivial   []uint64          `json:"nontrivial"`
	States       []uint64          `json:"states"`
	Undecided    int64             `json:"undecided"`
	Found        []Found           `json:"found"`
	Samples      [][]string        `json:"samples"`
	HarnessError string            `json:"harness_error,omitempty"`
	Tainted      bool              `json:"tainted"`
	LogHashes    map[string]string `json:"log_hashes,omitempty"` // run index -> log hash (determinism self-test)
	ReplayLog    []string          `json:"replay_log,omitempty"`
	Notes        []string          `json:"notes,omitempty"`
	// NextIndex is the run index at which a fresh worker should continue after this one left early (tainted).
	NextIndex int `json:"next_index,omitempty"`
}

// Engine runs one simulation.  It must derive every choice from c.T.
type Engine struct {
	Run func(c *Ctx)
	// Nontrivial decides, after the run, whether it counts as non-trivial.
	Nontrivial func(c *Ctx) bool
	NoBubble   bool
}

type seededReader struct{ r *Rand }

func (s *seededReader) Read(p []byte) (int, error) {
	for i := 0; i < len(p); i += 8 {
		v := s.r.Uint64()
		for j := 0; j < 8 && i+j < len(p); j++ {
			p[i+j] = byte(v >> (8 * uint(j)))
		}
	}
	return len(p), nil
}

var realRand io.Reader = crand.Reader

// SeedEntropy makes every source of randomness the code under test reads a
// pure function of seed: crypto/rand.Reader, the secp256k1 private entropy
// pool (hook H2) and the math/rand global source.
func SeedEntropy(seed uint64) {
	crand.Reader = &seededReader{NewRand(Mix(seed, 0xe17))}
	var b [8]byte
	binary.LittleEndian.PutUint64(b[:], seed)
	secp256k1.VerifSeedEntropy(b[:])
	mrand.Seed(int64(Mix(seed, 0x3a7) >> 1)) //nolint
}

type runOutcome struct {
	c        *Ctx
	harness  string
	tainted  bool // goroutines may have been left behind; process must exit
	panicked bool
}

// classify a recovered panic: harness fault or code-under-test panic.
func panicOrigin() (string, bool) {
	pcs := make([]uintptr, 64)
	n := runtime.Callers(3, pcs)
	frames := runtime.CallersFrames(pcs[:n])
	var sb strings.Builder
	origin := ""
	for {
		f, more := frames.Next()
		fn := f.Function
		if fn != "" {
			fmt.Fprintf(&sb, "%s:%d;", fn, f.Line)
			if origin == "" && !strings.HasPrefix(fn, "runtime.") && !strings.HasPrefix(fn, "runtime/") &&
				!strings.HasPrefix(fn, "log.") && !strings.Contains(fn, "logrus") && !strings.Contains(fn, "util/logging") {
				origin = fn
			}
		}
		if !more {
			break
		}
	}
	return sb.String(), strings.HasPrefix(origin, "verifsim/")
}

func shortStack(s string, n int) string {
	parts := strings.Split(s, ";")
	if len(parts) > n {
		parts = parts[:n]
	}
	return strings.Join(parts, " <- ")
}

// RunOne executes one simulation run in its own bubble and scratch directory.
func RunOne(t *testing.T, eng Engine, job *Job, runSeed uint64, tape *Tape, idx int, keepLog bool, bail func(c *Ctx)) (out runOutcome) {
	dir := filepath.Join(job.Scratch, fmt.Sprintf("r%d", idx))
	_ = os.RemoveAll(dir)
	if err := os.MkdirAll(dir, 0o700); err != nil {
		out.harness = "mkdir scratch: " + err.Error()
		return
	}
	defer os.RemoveAll(dir)
	c := NewCtx(job.Property, job.Profile, job.Tier, runSeed, tape, dir)
	c.KeepLog = keepLog
	c.Replay = job.ReplayTape != nil
	if bail != nil {
		c.Bail = func() { bail(c) }
	}
	c.Known = map[string]bool{}
	for _, k := range job.Known {
		c.Known[k] = true
	}
	out.c = c
	SeedEntropy(runSeed)
	body := func() {
		defer func() {
			if r := recover(); r != nil {
				if he, ok := r.(HarnessError); ok {
					out.harness = he.Msg
					return
				}
				stack, harness := panicOrigin()
				if harness {
					out.harness = fmt.Sprintf("panic in harness code: %v @ %s", r, shortStack(stack, 8))
					return
				}
				out.panicked = true
				out.tainted = true
				c.Violate("panic", "panic:"+firstSkycoinFrame(stack), "panic in code under test: %v @ %s", r, shortStack(stack, 10))
			}
		}()
		eng.Run(c)
	}
	// The bubble is entered from a goroutine of its own: when the race detector has reported something during
	// the run, synctest.Test ends with t.FailNow(), which must only end that goroutine, not the worker.
	done := make(chan struct{})
	go func() {
		defer close(done)
		defer func() {
			if r := recover(); r != nil {
				// end-of-bubble deadlock panic: goroutines were left blocked.
				msg := fmt.Sprint(r)
				out.tainted = true
				if c.Viol == nil && out.harness == "" {
					out.harness = "bubble ended with blocked goroutines: " + msg
				}
			}
		}()
		if eng.NoBubble {
			body()
		} else {
			synctest.Test(t, func(t *testing.T) { body() })
		}
	}()
	<-done
	return
}

func firstSkycoinFrame(stack string) string {
	for _, p := range strings.Split(stack, ";") {
		if strings.Contains(p, "skycoin/skycoin/src") {
			if i := strings.LastIndex(p, "skycoin/skycoin/src/"); i >= 0 {
				p = p[i+len("skycoin/skycoin/src/"):]
			}
			if j := strings.LastIndex(p, ":"); j >= 0 { // drop line number: robust to unrelated edits
				p = p[:j]
			}
			return p
		}
	}
	return "unknown"
}

// WorkerMain is the body of the single test function of every engine binary.
func WorkerMain(t *testing.T, engines map[string]Engine) {
	jobFile := os.Getenv("VERIF_JOB")
	if jobFile == "" {
		t.Skip("VERIF_JOB not set; this binary is driven by /verif/check.py")
	}
	raw, err := os.ReadFile(jobFile)
	if err != nil {
		fmt.Println("HARNESS-ERROR reading job:", err)
		os.Exit(2)
	}
	var job Job
	if err := json.Unmarshal(raw, &job); err != nil {
		fmt.Println("HARNESS-ERROR parsing job:", err)
		os.Exit(2)
	}
	eng, ok := engines[job.Property]
	if !ok {
		fmt.Println("HARNESS-ERROR unknown property for this engine:", job.Property)
		os.Exit(2)
	}
	if job.Stride <= 0 {
		job.Stride = 1
	}
	if job.TapeLimit <= 0 {
		job.TapeLimit = 20000
	}
	job.Scratch = filepath.Join(job.Scratch, fmt.Sprintf("w%d-%d", os.Getpid(), job.First))
	_ = os.MkdirAll(job.Scratch, 0o700)
	defer os.RemoveAll(job.Scratch)

	sum := &Summary{Property: job.Property, Profile: job.Profile, Counters: map[string]int64{}, Found: []Found{}}
	fps := map[uint64]struct{}{}
	nts := map[uint64]struct{}{}
	sts := map[uint64]struct{}{}
	start := wallNow() // wall clock of the *driver loop* only; never visible to a run
	if pf := os.Getenv("VERIF_CPUPROFILE"); pf != "" {
		if f, err := os.Create(pf); err == nil {
			_ = pprof.StartCPUProfile(f)
		}
	}
	finish := func(code int) {
		pprof.StopCPUProfile()
		sum.WallS = wallNow().Sub(start).Seconds()
		sum.Fingerprints = keys(fps)
		sum.Nontrivial = keys(nts)
		sum.States = keys(sts)
		b, _ := json.Marshal(sum)
		tmp := job.Out + ".tmp"
		if err := os.WriteFile(tmp, b, 0o644); err == nil {
			_ = os.Rename(tmp, job.Out)
		}
		_ = os.RemoveAll(job.Scratch)
		if code >= 0 {
			os.Exit(code)
		}
	}
	knownSeen := map[string]bool{}
	account := func(c *Ctx) {
		sum.Runs++
		sum.Steps += int64(c.Step)
		sum.SimSeconds += float64(c.SimNanos) / 1e9
		sum.Undecided += c.Undecided
		for k, v := range c.Counters {
			sum.Counters[k] += v
		}
		fp := c.Fingerprint()
		fps[fp] = struct{}{}
		if eng.Nontrivial != nil && eng.Nontrivial(c) {
			nts[fp] = struct{}{}
		}
		for s := range c.States {
			sts[s] = struct{}{}
		}
		for _, nt := range c.Notes {
			if len(sum.Notes) < 20 {
				sum.Notes = append(sum.Notes, nt)
			}
		}
		if len(sum.Samples) < 3 && len(c.Sample) > 0 {
			sum.Samples = append(sum.Samples, c.Sample)
		}
		for _, k := range c.KnownHits {
			if !knownSeen[k.Class+"|"+k.Signature] {
				knownSeen[k.Class+"|"+k.Signature] = true
				sum.Found = append(sum.Found, Found{Violation: k, RunSeed: c.Seed, Tape: trimZeros(c.T.Rec), OrigLen: len(c.T.Rec),
					LogHash: c.LogHash(), LogTail: tail(c.LogLines, 30), Knobs: c.Knobs, Counters: c.Counters})
			}
		}
	}

	// ---- replay mode -------------------------------------------------
	if job.ReplayTape != nil {
		if job.ShrinkExternal {
			shrinkExternal(&job, sum)
			finish(0)
		}
		tape := ReplayTape(job.ReplayTape)
		tape.Trace = true
		o := RunOne(t, eng, &job, job.ReplaySeed, tape, 0, true, func(c *Ctx) {
			account(c)
			sum.ReplayLog = c.LogLines
			if c.Viol != nil {
				sum.Found = append(sum.Found, Found{Violation: *c.Viol, RunSeed: job.ReplaySeed, Tape: trimZeros(c.T.Rec),
					LogHash: c.LogHash(), LogTail: tail(c.LogLines, 60), Knobs: c.Knobs, Counters: c.Counters})
			}
			sum.LogHashes = map[string]string{"0": c.LogHash()}
			sum.Tainted = true
			finish(0)
		})
		if o.harness != "" {
			sum.HarnessError = o.harness
			finish(2)
		}
		account(o.c)
		sum.ReplayLog = o.c.LogLines
		if o.c.Viol != nil {
			sum.Found = append(sum.Found, Found{Violation: *o.c.Viol, RunSeed: job.ReplaySeed, Tape: trimZeros(o.c.T.Rec),
				LogHash: o.c.LogHash(), LogTail: tail(o.c.LogLines, 60), Knobs: o.c.Knobs, Counters: o.c.Counters})
		}
		sum.LogHashes = map[string]string{"0": o.c.LogHash()}
		finish(0)
	}

	// ---- exploration -------------------------------------------------
	seenSig := map[string]bool{}
	sum.LogHashes = map[string]string{}
	for idx := job.First; ; idx += job.Stride {
		if job.MaxRuns > 0 && idx >= job.MaxRuns {
			break
		}
		if job.BudgetS > 0 && wallNow().Sub(start).Seconds() > job.BudgetS {
			break
		}
		runSeed := Mix(MixStr(job.Seed, job.Property+"/"+job.Profile), uint64(idx))
		// which run this process is in, for the driver: when the process dies (a fatal error of the Go runtime in the
		// code under test cannot be recovered from) this file says which run to repeat
		_ = os.WriteFile(job.Out+".cur", []byte(fmt.Sprintf(`{"run_index": %d, "run_seed": %d}`, idx, runSeed)), 0o600)
		tape := NewTape(runSeed, job.TapeLimit)
		o := RunOne(t, eng, &job, runSeed, tape, idx, false, func(c *Ctx) {
			account(c)
			if job.LogDump {
				sum.LogHashes[fmt.Sprint(idx)] = c.LogHash()
			}
			if c.Viol != nil {
				sum.Found = append(sum.Found, Found{Violation: *c.Viol, RunIndex: idx, RunSeed: runSeed, Tape: trimZeros(c.T.Rec), OrigLen: len(c.T.Rec),
					LogHash: c.LogHash(), LogTail: tail(c.LogLines, 60), Knobs: c.Knobs, Counters: c.Counters})
			}
			sum.Tainted = true
			sum.NextIndex = idx + job.Stride
			finish(0)
		})
		if o.harness != "" {
			sum.HarnessError = fmt.Sprintf("run %d seed %d: %s", idx, runSeed, o.harness)
			finish(2)
		}
		account(o.c)
		if job.LogDump {
			sum.LogHashes[fmt.Sprint(idx)] = o.c.LogHash()
			if d := os.Getenv("VERIF_LOG_DIR"); d != "" {
				// development aid for the determinism self-test: the (tail of the) event log of every run
				_ = os.WriteFile(fmt.Sprintf("%s/log-%d-gmp%s.txt", d, idx, os.Getenv("GOMAXPROCS")), []byte(strings.Join(o.c.LogLines, "\n")+"\n"), 0o600)
			}
		}
		if o.c.Viol == nil {
			if o.tainted {
				sum.Tainted = true
				sum.NextIndex = idx + job.Stride
				finish(0)
			}
			continue
		}
		v := *o.c.Viol
		if seenSig[v.Class+"|"+v.Signature] {
			if o.tainted {
				sum.Tainted = true
				sum.NextIndex = idx + job.Stride
				finish(0)
			}
			continue
		}
		seenSig[v.Class+"|"+v.Signature] = true
		f := Found{Violation: v, RunIndex: idx, RunSeed: runSeed, Tape: trimZeros(o.c.T.Rec), OrigLen: len(o.c.T.Rec),
			LogHash: o.c.LogHash(), LogTail: tail(o.c.LogLines, 60), Knobs: o.c.Knobs, Counters: o.c.Counters}
		isKnown := false
		for _, k := range job.Known {
			if k == v.Class+"|"+v.Signature {
				isKnown = true
			}
		}
		if !o.tainted && job.ShrinkBudget > 0 && !isKnown {
			tainted := false
			var best *Ctx
			shrinkStart := time.Now() // wall clock of the driver loop only: bounds the time spent minimising
			shrinkLimit := 40.0
			if job.Tier == "thorough" {
				shrinkLimit = 180.0
			}
			min, used := Shrink(f.Tape, func(cand []uint64) (bool, []uint64) {
				if tainted || time.Since(shrinkStart).Seconds() > shrinkLimit {
					return false, nil
				}
				so := RunOne(t, eng, &job, runSeed, ReplayTape(cand), idx, false, nil)
				if so.tainted {
					tainted = true
				}
				if so.harness != "" || so.c == nil || so.c.Viol == nil {
					return false, nil
				}
				if so.c.Viol.Class != v.Class || so.c.Viol.Signature != v.Signature {
					return false, nil
				}
				best = so.c
				return true, so.c.T.Rec
			}, job.ShrinkBudget)
			f.ShrinkRuns = used
			if best != nil && len(min) <= len(f.Tape) {
				f.Tape = min
				f.Minimised = true
			}
			if tainted {
				o.tainted = true
			}
		}
		sum.Found = append(sum.Found, f)
		if o.tainted {
			sum.Tainted = true
			sum.NextIndex = idx + job.Stride
			finish(0)
		}
		if len(sum.Found) >= 6 {
			break
		}
	}
	finish(0)
}

func keys(m map[uint64]struct{}) []uint64 {
	ks := make([]uint64, 0, len(m))
	for k := range m {
		ks = append(ks, k)
	}
	sort.Slice(ks, func(i, j int) bool { return ks[i] < ks[j] })
	return ks
}

func tail(l []string, n int) []string {
	if len(l) > n {
		return l[len(l)-n:]
	}
	return l
}

// shrinkExternal minimises job.ReplayTape while class/signature persist; every candidate runs in a fresh child
// process of this binary (replay mode).  The result is sum.Found[0] with the minimised tape.
func shrinkExternal(job *Job, sum *Summary) {
	start := time.Now() // wall clock of the driver loop only
	limit := job.ShrinkWallS
	if limit <= 0 {
		limit = 120
	}
	n := 0
	good := map[string]Found{}
	test := func(cand []uint64) (bool, []uint64) {
		if time.Since(start).Seconds() > limit {
			return false, nil
		}
		n++
		out := filepath.Join(job.Scratch, fmt.Sprintf("shrink-%d.json", n))
		jf := filepath.Join(job.Scratch, fmt.Sprintf("shrink-job-%d.json", n))
		cj := Job{Property: job.Property, Profile: job.Profile, Tier: job.Tier, Stride: 1, Out: out, Scratch: job.Scratch,
			ReplayTape: append([]uint64{0}[:0], cand...), ReplaySeed: job.ReplaySeed, TapeLimit: job.TapeLimit}
		if len(cj.ReplayTape) == 0 {
			cj.ReplayTape = []uint64{0}
		}
		b, _ := json.Marshal(cj)
		if err := os.WriteFile(jf, b, 0o644); err != nil {
			return false, nil
		}
		cmd := exec.Command(os.Args[0], "-test.run", "^TestWorker$", "-test.timeout", "0")
		cmd.Env = append(os.Environ(), "VERIF_JOB="+jf)
		done := make(chan error, 1)
		if err := cmd.Start(); err != nil {
			return false, nil
		}
		go func() { done <- cmd.Wait() }()
		select {
		case <-done:
		case <-time.After(120 * time.Second):
			_ = cmd.Process.Kill()
			<-done
			return false, nil
		}
		raw, err := os.ReadFile(out)
		_ = os.Remove(out)
		_ = os.Remove(jf)
		if err != nil {
			return false, nil
		}
		var cs Summary
		if json.Unmarshal(raw, &cs) != nil || cs.HarnessError != "" || len(cs.Found) == 0 {
			return false, nil
		}
		f := cs.Found[0]
		if f.Violation.Class != job.ReplayClass || f.Violation.Signature != job.ReplaySig {
			return false, nil
		}
		good[tapeKey(f.Tape)] = f
		return true, f.Tape
	}
	min, used := Shrink(job.ReplayTape, test, job.ShrinkBudget)
	if f, ok := good[tapeKey(min)]; ok {
		f.Tape = min
		f.Minimised = true
		f.ShrinkRuns = used
		f.OrigLen = len(job.ReplayTape)
		sum.Found = append(sum.Found, f)
	}
}

func tapeKey(t []uint64) string {
	return fmt.Sprint(trimZeros(t))
}

// wallNow reads the real clock even when called from inside a synctest bubble (where time.Now is the fake clock).
// WallNow is the real clock (time.Now is the fake clock inside a bubble).
func WallNow() time.Time { return wallNow() }

func wallNow() time.Time {
	var tv syscall.Timeval
	_ = syscall.Gettimeofday(&tv)
	return time.Unix(tv.Sec, tv.Usec*1000)
}
