#!/bin/sh
# Warm the go1.26.8 build cache and build every engine binary once (offline).
set -e
export GOFLAGS=-mod=mod GOPROXY=off GOSUMDB=off GOTOOLCHAIN=local
cd "$(dirname "$0")/harness"
cp /repo/go.sum go.sum
mkdir -p ../.build
for e in $(ls -d e[0-9]* 2>/dev/null); do
  if [ "$e" = "e2" ]; then
    go1.26.8 test -c -tags verif -race -gcflags=all=-d=checkptr=0 -o ../.build/setup-$e.test ./$e
  else
    go1.26.8 test -c -tags verif -o ../.build/setup-$e.test ./$e
  fi
done
echo setup ok
